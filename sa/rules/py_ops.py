"""Python API plumbing rules over optree/ops.py (and integration/*.py for F1):
F1 option forwarding, F2 map-family normal form, F3 rests matched before the first call,
F4 single consumption, F6 guards dominate, F7 reduction form, F9 constructor table,
T6 formula twins, K7py validation parity of tree_flatten_one_level, P2py prefix_errors exception
discipline, K9py Python-level recursion over tree depth."""
from __future__ import annotations

import ast
import re

from ..engine import rule
from ..py_frontend import (pmatch, dotted, call_name, calls_under, walk, param_names, bind_call, is_name,
                           src, pycfg, names_in)
from ..bridge import binding_table

OPTS = ('is_leaf', 'none_is_leaf', 'namespace')
C_OPT_NAME = {'leaf_predicate': 'is_leaf', 'none_is_leaf': 'none_is_leaf', 'namespace': 'namespace'}

# accepted non-forwarding call sites: (caller, callee, option) -> reason
F1_EXCEPTIONS = {
    ('prefix_errors.helper', 'tree_flatten_one_level', 'is_leaf'):
        'leafness of the prefix subtree was decided by tree_is_leaf just before; the engine '
        'matcher never consults the predicate on the full tree either',
}


def _public_funcs(mod):
    allv = mod.top_assign('__all__')
    names = []
    if isinstance(allv, (ast.List, ast.Tuple)):
        names = [e.value for e in allv.elts if isinstance(e, ast.Constant)]
    return names


def _opts_of(fn):
    pos, var, kwonly, kw = param_names(fn)
    return [o for o in OPTS if o in pos or o in kwonly]


def _resolve_py_callee(pkg, mod, name):
    """FunctionDef for a call name inside module `mod` (same module, or imported from optree.*)"""
    if name is None:
        return None, None
    if name in mod.funcs:
        return mod.funcs[name], name
    if name == 'register_pytree_node.get':
        r = pkg.mod('optree.registry')
        return r.funcs.get('pytree_node_registry_get'), 'pytree_node_registry_get'
    # from optree.ops import tree_flatten ... / import optree.ops as ops
    for n in mod.tree.body:
        if isinstance(n, ast.ImportFrom) and n.module and n.module.startswith('optree'):
            for a in n.names:
                if (a.asname or a.name) == name:
                    m = pkg.modules.get(n.module)
                    if m and a.name in m.funcs:
                        return m.funcs[a.name], a.name
    if '.' in name:
        head, tail = name.rsplit('.', 1)
        for n in mod.tree.body:
            if isinstance(n, ast.Import):
                for a in n.names:
                    if (a.asname or a.name) == head and a.name in pkg.modules and \
                            tail in pkg.modules[a.name].funcs:
                        return pkg.modules[a.name].funcs[tail], tail
            if isinstance(n, ast.ImportFrom) and n.module and n.module.startswith('optree'):
                for a in n.names:
                    full = n.module + '.' + a.name
                    if (a.asname or a.name) == head and full in pkg.modules and \
                            tail in pkg.modules[full].funcs:
                        return pkg.modules[full].funcs[tail], tail
    return None, None


def _c_alias(mod):
    """local name of the extension module in `mod` ('_C')"""
    for n in mod.tree.body:
        if isinstance(n, ast.Import):
            for a in n.names:
                if a.name == 'optree._C':
                    return a.asname or 'optree._C'
        if isinstance(n, ast.ImportFrom) and n.module == 'optree':
            for a in n.names:
                if a.name == '_C':
                    return a.asname or '_C'
    return '_C'


def _pos_params(fn):
    return [a for a in fn.args.posonlyargs + fn.args.args]


def func_param(fn):
    """the mapped-function parameter: the first positional parameter annotated Callable (its
    spelling is not part of the interface: it is positional-only)"""
    for a in _pos_params(fn):
        if a.annotation is not None and src(a.annotation).startswith('Callable'):
            return a.arg
    return 'func'


def tree_param(fn):
    """the tree parameter: the first positional parameter annotated PyTree[...]"""
    for a in _pos_params(fn):
        if a.annotation is not None and src(a.annotation).startswith('PyTree'):
            return a.arg
    return 'tree'


def _is_flag_of_own_treespec(fn, expr, opt):
    """expr is `<T>.<opt>` where T is the treespec returned by a flatten call of this function
    that was given the function's own <opt>"""
    if not (isinstance(expr, ast.Attribute) and expr.attr == opt and isinstance(expr.value, ast.Name)):
        return False
    for s_ in fn.body:
        if isinstance(s_, ast.Assign) and isinstance(s_.value, ast.Call) and \
                (call_name(s_.value) or '').startswith('_C.flatten') and \
                isinstance(s_.targets[0], ast.Tuple) and is_name(s_.targets[0].elts[-1], expr.value.id):
            return any(is_name(a, opt) for a in s_.value.args) or \
                any(k.arg == opt and is_name(k.value, opt) for k in s_.value.keywords)
    return False


@rule('F1', floor=60, title='is_leaf / none_is_leaf / namespace are forwarded unchanged to every callee that takes them')
def f1(ctx):
    pkg = ctx.py()
    tab = binding_table(ctx.cxx())
    n_sites = 0
    for modname in ('optree.ops', 'optree.integration.numpy', 'optree.integration.jax',
                    'optree.integration.torch'):
        mod = pkg.mod(modname)
        calias = _c_alias(mod)
        for qual, fn in sorted(mod.funcs.items()):
            top = qual.split('.')[0]
            if top not in mod.funcs:
                continue
            outer = mod.funcs[top]
            have = _opts_of(outer) if '.' in qual else _opts_of(fn)
            if not have:
                continue
            if '.' in qual and _opts_of(fn):
                have = _opts_of(fn)
            for c in calls_under(fn):
                name = call_name(c)
                if name is None:
                    continue
                passed = {}
                accepts = []
                callee_label = name
                if name.startswith(calias + '.'):
                    b = tab.get(('module', name[len(calias) + 1:])) or \
                        (tab.get(('PyTreeIter', '__init__')) if name.endswith('.PyTreeIter') else None)
                    if b is None:
                        continue
                    argnames = [C_OPT_NAME.get(a[0], a[0]) for a in b.args]
                    accepts = [a for a in argnames if a in OPTS]
                    for i, a in enumerate(c.args):
                        if i < len(argnames):
                            passed[argnames[i]] = a
                    for k in c.keywords:
                        if k.arg:
                            passed[C_OPT_NAME.get(k.arg, k.arg)] = k.value
                else:
                    callee, cname = _resolve_py_callee(pkg, mod, name)
                    if callee is None:
                        continue
                    callee_label = cname
                    accepts = _opts_of(callee)
                    m, problems = bind_call(c, callee)
                    passed = {k: v for k, v in m.items() if not k.startswith('*')}
                for o in accepts:
                    if o not in have:
                        continue
                    n_sites += 1
                    site = '%s->%s/%s' % (qual, callee_label, o)
                    got = passed.get(o)
                    ok = got is not None and is_name(got, o)
                    if not ok and o == 'none_is_leaf' and got is not None and \
                            _is_flag_of_own_treespec(fn, got, o):
                        # <treespec>.none_is_leaf of the treespec this function just obtained by
                        # flattening with its own none_is_leaf is that flag (M5); the same does
                        # not hold for the namespace, which a treespec records only if it was used
                        ok = True
                    if not ok and (qual, callee_label, o) in F1_EXCEPTIONS:
                        ctx.ok(site, '%s: accepted exception - %s'
                               % (qual, F1_EXCEPTIONS[(qual, callee_label, o)]), mod.loc(c))
                        continue
                    ctx.check(site, ok,
                              '%s passes its `%s` to %s' % (qual, o, callee_label),
                              '%s calls %s %s: the option the caller received is not what the '
                              'callee works with' % (
                                  qual, callee_label,
                                  ('without `%s` (default used)' % o) if got is None
                                  else ('with %s=%s' % (o, src(got)))), mod.loc(c))
    ctx.analysed['f1_call_sites'] = n_sites


# ---------------------------------------------------------------------------------------------
MAP_FAMILY = {
    # name -> (flatten entry, extra first iterable, returns)
    'tree_map': ('flatten', None, 'unflatten'),
    'tree_map_': ('flatten', None, 'tree'),
    'tree_map_with_path': ('flatten_with_path', 'paths', 'unflatten'),
    'tree_map_with_path_': ('flatten_with_path', 'paths', 'tree'),
    'tree_map_with_accessor': ('flatten', 'accessors', 'unflatten'),
    'tree_map_with_accessor_': ('flatten', 'accessors', 'tree'),
    'tree_transpose_map': ('flatten', None, 'transpose'),
    'tree_transpose_map_with_path': ('flatten_with_path', 'paths', 'transpose'),
    'tree_transpose_map_with_accessor': ('flatten', 'accessors', 'transpose'),
}
BROADCAST_MAP = {
    'tree_broadcast_map': 'tree_map',
    'tree_broadcast_map_with_path': 'tree_map_with_path',
    'tree_broadcast_map_with_accessor': 'tree_map_with_accessor',
}


def _assign_targets(stmt):
    if isinstance(stmt, ast.Assign) and len(stmt.targets) == 1:
        t = stmt.targets[0]
        if isinstance(t, ast.Tuple):
            return [e.id if isinstance(e, ast.Name) else None for e in t.elts]
        if isinstance(t, ast.Name):
            return [t.id]
    return None


def map_descriptor(mod, fn, calias='_C'):
    """what a map-family function does, as a dict (None fields = not recognised)"""
    d = {'flatten': None, 'names': None, 'extra': None, 'returns': None, 'map_calls': 0,
         'flat_args_ok': False, 'map_first_is_func': False, 'consumer': None, 'spec_var': None}
    leaves_var = spec_var = paths_var = None
    for s in fn.body:
        tg = _assign_targets(s)
        if tg and isinstance(s.value, ast.Call) and (call_name(s.value) or '').startswith(calias + '.'):
            entry = call_name(s.value)[len(calias) + 1:]
            if entry in ('flatten', 'flatten_with_path'):
                d['flatten'] = entry
                d['names'] = tg
                if entry == 'flatten' and len(tg) == 2:
                    leaves_var, spec_var = tg
                elif entry == 'flatten_with_path' and len(tg) == 3:
                    paths_var, leaves_var, spec_var = tg
    d['spec_var'] = spec_var
    # flat_args: the leaves followed by every rest matched against the treespec.  Recognised
    # eager forms:  [leaves] + [spec.flatten_up_to(r) for r in rests]
    #               [leaves, *[spec.flatten_up_to(r) for r in rests]]
    #               [leaves] + list(map(spec.flatten_up_to, rests))   /  [leaves, *map(...)]
    flat_var = None
    d['flat_args_form'] = None

    def matched_rests(e):
        """'eager' / 'lazy' / None for an expression that matches rests against the treespec"""
        # `<leaves> if r is <tree> else treespec.flatten_up_to(r)`: a rest that is the very tree
        # object has the tree's own leaves - anything else in that place is misaligned
        if isinstance(e, (ast.ListComp, ast.GeneratorExp)) and isinstance(e.elt, ast.IfExp) and \
                len(e.generators) == 1 and isinstance(e.generators[0].target, ast.Name):
            rv = e.generators[0].target.id
            ie = e.elt
            same = pmatch(ie.test, '?r is ?t', {'r': rv, 't': tree_param(fn)}) is not None
            other = pmatch(ie.test, '?r is not ?t', {'r': rv, 't': tree_param(fn)}) is not None
            if same or other:
                short_, full_ = (ie.body, ie.orelse) if same else (ie.orelse, ie.body)
                if isinstance(full_, ast.Call) and call_name(full_) == '%s.flatten_up_to' % spec_var and \
                        len(full_.args) == 1 and is_name(full_.args[0], rv) and is_name(e.generators[0].iter, 'rests'):
                    if not is_name(short_, leaves_var):
                        d['rest_shortcut'] = src(short_)
                    return 'eager' if isinstance(e, ast.ListComp) else 'lazy'
        if isinstance(e, (ast.ListComp, ast.GeneratorExp)) and isinstance(e.elt, ast.Call) and \
                call_name(e.elt) == '%s.flatten_up_to' % spec_var and len(e.generators) == 1 and \
                is_name(e.generators[0].iter, 'rests') and len(e.elt.args) == 1 and \
                isinstance(e.generators[0].target, ast.Name) and \
                is_name(e.elt.args[0], e.generators[0].target.id):
            return 'eager' if isinstance(e, ast.ListComp) else 'lazy'
        if isinstance(e, ast.Call) and call_name(e) == 'map' and len(e.args) == 2 and \
                src(e.args[0]) == '%s.flatten_up_to' % spec_var and is_name(e.args[1], 'rests'):
            return 'lazy'
        if isinstance(e, ast.Call) and call_name(e) in ('list', 'tuple') and len(e.args) == 1:
            r = matched_rests(e.args[0])
            return 'eager' if r else None
        return None
    for s_ in fn.body:
        tg = _assign_targets(s_)
        if not (tg and len(tg) == 1):
            continue
        v = s_.value
        form = None
        if isinstance(v, ast.BinOp) and isinstance(v.op, ast.Add) and isinstance(v.left, ast.List) \
                and len(v.left.elts) == 1 and is_name(v.left.elts[0], leaves_var):
            form = matched_rests(v.right)
        elif isinstance(v, ast.List) and len(v.elts) == 2 and is_name(v.elts[0], leaves_var) and \
                isinstance(v.elts[1], ast.Starred):
            form = matched_rests(v.elts[1].value)
            if form == 'lazy':
                form = 'eager'      # star-unpacking into a list display drains the iterator
        if form:
            d['flat_args_ok'] = True
            d['flat_args_form'] = form
            flat_var = tg[0]
    maps = [c for c in calls_under(fn) if call_name(c) == 'map' and c.args and is_name(c.args[0], func_param(fn))]
    d['map_calls'] = len(maps)
    if maps:
        m = maps[0]
        a = m.args
        d['map_first_is_func'] = bool(a) and is_name(a[0], func_param(fn))
        rest = a[1:]
        extra = None
        if rest and isinstance(rest[-1], ast.Starred) and is_name(rest[-1].value, flat_var):
            mid = rest[:-1]
            if len(mid) == 0:
                extra = None
            elif len(mid) == 1:
                e = mid[0]
                if is_name(e, paths_var) and paths_var is not None:
                    extra = 'paths'
                elif isinstance(e, ast.Call) and call_name(e) == '%s.accessors' % spec_var:
                    extra = 'accessors'
                else:
                    extra = 'unknown:' + src(e)
            else:
                extra = 'unknown:%d extra iterables' % len(mid)
        else:
            extra = 'unknown:flat_args not starred last'
        d['extra'] = extra
        # consumer of the map object
        parent = {}
        for n in ast.walk(fn):
            for c in ast.iter_child_nodes(n):
                parent[id(c)] = n
        p = parent.get(id(m))
        # `results = map(...)` followed by one use of `results`: the consumer is where it is used
        hops = 0
        while isinstance(p, ast.Assign) and len(p.targets) == 1 and isinstance(p.targets[0], ast.Name) and hops < 3:
            t_ = p.targets[0].id
            uses = [n for n in walk(fn) if isinstance(n, ast.Name) and n.id == t_ and isinstance(n.ctx, ast.Load)]
            defs = [n for n in walk(fn) if isinstance(n, ast.Name) and n.id == t_ and isinstance(n.ctx, ast.Store)]
            if len(uses) != 1 or len(defs) != 1:
                break
            p = parent.get(id(uses[0]))
            hops += 1
        if isinstance(p, ast.Call):
            cn = call_name(p)
            if cn == '%s.unflatten' % spec_var:
                d['consumer'] = 'unflatten'
            elif cn == 'deque' and any(k.arg == 'maxlen' and isinstance(k.value, ast.Constant)
                                       and k.value.value == 0 for k in p.keywords):
                d['consumer'] = 'drain'
            elif cn == 'list':
                d['consumer'] = 'list'
            else:
                d['consumer'] = 'other:' + str(cn)
    rets = [s for s in walk(fn) if isinstance(s, ast.Return)]
    if len(rets) == 1 and rets[0].value is not None:
        v = rets[0].value
        # `out = treespec.unflatten(...)` followed by `return out`
        if isinstance(v, ast.Name) and not is_name(v, tree_param(fn)):
            asg = [s_ for s_ in walk(fn) if isinstance(s_, ast.Assign) and len(s_.targets) == 1 and
                   is_name(s_.targets[0], v.id)]
            if len(asg) == 1:
                v = asg[0].value
        if is_name(v, tree_param(fn)):
            d['returns'] = 'tree'
        elif isinstance(v, ast.Call) and call_name(v) == '%s.unflatten' % spec_var:
            d['returns'] = 'unflatten'
        elif isinstance(v, ast.Call) and (call_name(v) or '').endswith('.unflatten'):
            d['returns'] = 'transpose'
    return d


@rule('F2', floor=12, title='the map family is one normal form modulo its declared variation points')
def f2(ctx):
    pkg = ctx.py()
    mod = pkg.mod('optree.ops')
    calias = _c_alias(mod)
    for name, (entry, extra, ret) in MAP_FAMILY.items():
        fn = mod.func(name)
        d = map_descriptor(mod, fn, calias)
        exp_consumer = {'unflatten': 'unflatten', 'tree': 'drain', 'transpose': 'list'}[ret]
        problems = []
        # shapes the extractor does not know are not verdicts
        ctx.require(d['flatten'] is not None, '%s: no `... = _C.flatten[_with_path](...)` statement recognised' % name)
        ctx.require(d['map_calls'] >= 1, '%s: no map(func, ...) recognised' % name)
        if not d['flat_args_ok']:
            # F3 decides whether the rests are matched (and eagerly); an unknown way of building
            # the argument list is not a verdict of this rule
            ctx.fail('%s: the statement that builds the map arguments is not in a recognised form' % name)
        if d['flatten'] != entry:
            problems.append('flattens with %s, expected %s' % (d['flatten'], entry))
        if d['map_calls'] != 1:
            problems.append('%d map() calls' % d['map_calls'])
        if not d['map_first_is_func']:
            problems.append('map() is not applied to func')
        if d['extra'] != extra:
            problems.append('extra first iterable is %s, expected %s' % (d['extra'], extra))
        if d.get('rest_shortcut'):
            problems.append('a rest that is the tree itself is given `%s` instead of the tree\'s leaves'
                            % d['rest_shortcut'])
        if d['consumer'] != exp_consumer:
            problems.append('map object consumed by %s, expected %s' % (d['consumer'], exp_consumer))
        if d['returns'] != ret:
            problems.append('returns %s, expected %s' % (d['returns'], ret))
        ctx.check(name + '/normal-form', not problems,
                  '%s = %s -> map(func%s, leaves, *matched rests) -> %s'
                  % (name, entry, ', ' + extra if extra else '', ret),
                  '%s deviates from its family: %s' % (name, '; '.join(problems)), mod.loc(fn))
    for name, inner in BROADCAST_MAP.items():
        fn = mod.func(name)
        rets = [s for s in walk(fn) if isinstance(s, ast.Return)]
        ok = False
        why = 'no single return'
        if len(rets) == 1 and isinstance(rets[0].value, ast.Call):
            c = rets[0].value
            why = 'returns %s' % call_name(c)
            if call_name(c) == inner and len(c.args) == 2 and is_name(c.args[0], func_param(fn)) and \
                    isinstance(c.args[1], ast.Starred) and isinstance(c.args[1].value, ast.Call) and \
                    call_name(c.args[1].value) == '_tree_broadcast_common':
                bc = c.args[1].value
                if len(bc.args) == 2 and is_name(bc.args[0], tree_param(fn)) and \
                        isinstance(bc.args[1], ast.Starred) and is_name(bc.args[1].value, 'rests'):
                    ok = True
                else:
                    why = '_tree_broadcast_common is not given (tree, *rests)'
        ctx.check(name + '/normal-form', ok,
                  '%s = %s(func, *_tree_broadcast_common(tree, *rests, ...))' % (name, inner),
                  '%s: %s' % (name, why), mod.loc(fn))


@rule('F3', floor=9, title='every rest is matched against the treespec eagerly, before the statement that can first call func')
def f3(ctx):
    pkg = ctx.py()
    mod = pkg.mod('optree.ops')
    for name in MAP_FAMILY:
        fn = mod.func(name)
        cfg = pycfg(fn)
        fups = [c for c in calls_under(fn) if (call_name(c) or '').endswith('.flatten_up_to')
                and len(c.args) == 1 and not isinstance(c.args[0], ast.Name) is False]
        rest_fups = []
        parent = {}
        for n in ast.walk(fn):
            for c in ast.iter_child_nodes(n):
                parent[id(c)] = n
        for c in fups:
            # is it iterating `rests`?
            p = parent.get(id(c))
            comp = None
            while p is not None and not isinstance(p, ast.stmt):
                if isinstance(p, (ast.ListComp, ast.GeneratorExp, ast.SetComp)):
                    comp = p
                    break
                if isinstance(p, ast.Call) and call_name(p) == 'map':
                    comp = p
                    break
                p = parent.get(id(p))
            if comp is not None and any(is_name(g.iter, 'rests') for g in getattr(comp, 'generators', [])):
                rest_fups.append((c, comp))
            elif comp is not None and isinstance(comp, ast.Call) and \
                    any(is_name(a, 'rests') for a in comp.args):
                rest_fups.append((c, comp))
        maps = [c for c in calls_under(fn) if call_name(c) == 'map' and c.args and is_name(c.args[0], func_param(fn))]
        site = name + '/rests-eager'
        if not rest_fups:
            ctx.bad(site, '%s: the rests are never matched with flatten_up_to' % name, mod.loc(fn))
            continue
        if not maps:
            ctx.bad(site, '%s: no map(func, ...) found' % name, mod.loc(fn))
            continue
        mnode = cfg.node_of(maps[0])
        problems = []
        for c, comp in rest_fups:
            if not isinstance(comp, ast.ListComp):
                problems.append('flatten_up_to over rests is evaluated lazily (%s): a structure '
                                'mismatch surfaces only after func has been called on earlier '
                                'leaves' % type(comp).__name__)
                continue
            cn = cfg.node_of(c)
            if cn == mnode or not cfg.dominates(cn, mnode):
                problems.append('the matching statement does not precede the map(func, ...) statement')
        ctx.check(site, not problems,
                  '%s: all rests are matched by a list comprehension in a statement that '
                  'dominates the first call of func' % name,
                  '%s: %s' % (name, '; '.join(problems)), mod.loc(maps[0]))


@rule('F4', floor=9, title='the mapped function object is consumed exactly once and called nowhere else')
def f4(ctx):
    pkg = ctx.py()
    mod = pkg.mod('optree.ops')
    for name in MAP_FAMILY:
        fn = mod.func(name)
        uses = [n for n in walk(fn) if isinstance(n, ast.Name) and n.id == func_param(fn)]
        maps = [c for c in calls_under(fn) if call_name(c) == 'map' and c.args and is_name(c.args[0], func_param(fn))]
        calls_of_func = [c for c in calls_under(fn) if call_name(c) == func_param(fn)]
        ok = len(maps) == 1 and len(uses) == 1 and not calls_of_func
        ctx.check(name + '/func-used-once', ok,
                  '%s: func appears once, as the first argument of the single map()' % name,
                  '%s: func is used %d time(s), map(func, ...) occurs %d time(s), direct calls: %d'
                  % (name, len(uses), len(maps), len(calls_of_func)), mod.loc(fn))


# ---------------------------------------------------------------------------------------------
def _guards(mod, fn):
    """[(cond node idx, cond ast, raised exception name)] for `if cond: raise X(...)`"""
    cfg = pycfg(fn)
    out = []
    for s in walk(fn):
        if isinstance(s, ast.If) and s.body and isinstance(s.body[-1], ast.Raise):
            r = s.body[-1]
            exc = call_name(r.exc) if isinstance(r.exc, ast.Call) else dotted(r.exc)
            out.append((s, exc))
    return cfg, out


def _f6_resolver(fn):
    """source text of an expression with single-assignment locals replaced by what they stand for"""
    vals = {}
    counts = {}
    for n in walk(fn):
        if isinstance(n, ast.Assign) and len(n.targets) == 1 and isinstance(n.targets[0], ast.Name):
            counts[n.targets[0].id] = counts.get(n.targets[0].id, 0) + 1
            vals[n.targets[0].id] = n.value

    def res(e, depth=0):
        if isinstance(e, ast.Name) and counts.get(e.id) == 1 and depth < 3:
            return res(vals[e.id], depth + 1)
        if isinstance(e, ast.BinOp):
            return '(%s %s %s)' % (res(e.left, depth), type(e.op).__name__, res(e.right, depth))
        return src(e)
    return res


def _f6_cmp(e, res):
    """(operator name, left text, right text) of a single comparison, else None"""
    if isinstance(e, ast.Compare) and len(e.ops) == 1:
        return type(e.ops[0]).__name__, res(e.left), res(e.comparators[0])
    return None


def _m_size_zero(role):
    def m(e, res, r):
        c = _f6_cmp(e, res)
        if c and c[1] == '%s.num_leaves' % r[role] and c[2] == '0' and c[0] in ('Eq', 'NotEq', 'LtE', 'Gt', 'Lt', 'GtE'):
            return {'Eq': True, 'LtE': True, 'NotEq': False, 'Gt': False}.get(c[0])
        if c and c[1] == '%s.num_leaves' % r[role] and c[2] == '1' and c[0] in ('Lt', 'GtE'):
            return c[0] == 'Lt'
        # `not size`: the CFG has already turned `not x` round, so a bare size atom is "non-zero"
        if not isinstance(e, ast.Compare) and res(e) == '%s.num_leaves' % r[role]:
            return False
        return None
    return m


def _m_attr_differs(attr):
    def m(e, res, r):
        c = _f6_cmp(e, res)
        both = {'%s.%s' % (r['outer'], attr), '%s.%s' % (r['inner'], attr)}
        if c and {c[1], c[2]} == both and c[0] in ('NotEq', 'Eq', 'IsNot', 'Is'):
            return c[0] in ('NotEq', 'IsNot')
        return None
    return m


def _conditional(m):
    def m2(e, res, r):
        return m(e, res, r)
    m2.conditional = True
    return m2


def _m_leaf_product(e, res, r):
    c = _f6_cmp(e, res)
    if not c or c[0] not in ('NotEq', 'Eq'):
        return None
    a, b = '%s.num_leaves' % r['outer'], '%s.num_leaves' % r['inner']
    prods = {'(%s Mult %s)' % (a, b), '(%s Mult %s)' % (b, a)}
    if (c[1] in prods and c[2].endswith('num_leaves')) or (c[2] in prods and c[1].endswith('num_leaves')):
        return c[0] == 'NotEq'
    return None


# rejection id -> (matcher(atom, resolver, roles) -> the outcome of the atom on which the call is
# rejected, or None when the atom is not this test; exception)
F6_TABLE = {
    'tree_transpose': [
        ('none_is_leaf-equal', [_m_attr_differs('none_is_leaf')], 'ValueError'),
        ('non-empty', [_m_size_zero('outer'), _m_size_zero('inner')], 'ValueError'),
        # (tested only when both treespecs carry a namespace: no dominance asked of this atom)
        ('namespace-compatible', [_conditional(_m_attr_differs('namespace'))], 'ValueError'),
        ('leaf-count-product', [_m_leaf_product], 'TypeError'),
    ],
    'tree_transpose_map': [
        ('outer-non-empty', [_m_size_zero('outer')], 'ValueError'),
        ('inner-non-empty', [_m_size_zero('inner')], 'ValueError'),
    ],
}
F6_TABLE['tree_transpose_map_with_path'] = F6_TABLE['tree_transpose_map']
F6_TABLE['tree_transpose_map_with_accessor'] = F6_TABLE['tree_transpose_map']


def _transpose_roles(fn):
    """names of the outer and the inner treespec in a transpose function: parameters where they
    are parameters; otherwise the outer one is the treespec of the function's own flatten call"""
    ps = {a.arg for a in fn.args.posonlyargs + fn.args.args + fn.args.kwonlyargs}
    specs = [a.arg for a in _pos_params(fn)
             if a.annotation is not None and src(a.annotation).startswith('PyTreeSpec')]
    if len(specs) == 2:
        # tree_transpose(outer, inner, tree, /): the two leading treespec parameters, in order
        return {'outer': specs[0], 'inner': specs[1]}
    if 'inner_treespec' not in ps:
        return None
    for s_ in fn.body:
        if isinstance(s_, ast.Assign) and isinstance(s_.value, ast.Call) and \
                (call_name(s_.value) or '').startswith('_C.flatten') and isinstance(s_.targets[0], ast.Tuple) \
                and isinstance(s_.targets[0].elts[-1], ast.Name):
            return {'outer': s_.targets[0].elts[-1].id, 'inner': 'inner_treespec'}
    return None


@rule('F6', floor=10, title='documented rejections dominate the regrouping work')
def f6(ctx):
    pkg = ctx.py()
    mod = pkg.mod('optree.ops')
    for name, table in F6_TABLE.items():
        fn = mod.func(name)
        cfg, guards = _guards(mod, fn)
        rets = [s for s in walk(fn) if isinstance(s, ast.Return)]
        ctx.require(rets, '%s has no return statement' % name)
        roles = _transpose_roles(fn)
        ctx.require(roles is not None, '%s: outer / inner treespec not recognised' % name)
        # whatever is returned is rebuilt through the inner treespec: the result has the inner
        # structure at the top on every path (no short cut that hands back something else)
        odd = [r for r in rets if r.value is None or
               pmatch(r.value, '?inner.unflatten(??x)', {'inner': roles['inner']}) is None]
        ctx.check('%s/result-through-inner-treespec' % name, not odd,
                  '%s: every result is inner_treespec.unflatten(...)' % name,
                  '%s returns `%s`: on that path the result is not rebuilt through the inner treespec, '
                  'so it is not shaped inner-of-outer' % (name, src(odd[0].value)[:70] if odd and odd[0].value is not None else 'None'),
                  mod.loc(odd[0]) if odd else mod.loc(fn))
        # the rejections are judged against the last return (the regrouping); an extra return is
        # reported above
        rn = cfg.node_of(rets[-1])
        res = _f6_resolver(fn)
        raises = {}
        for n_ in cfg.nodes:
            if n_.kind == 'raise' and isinstance(n_.ast, ast.Raise) and n_.ast.exc is not None:
                x_ = n_.ast.exc
                raises[n_.idx] = call_name(x_) if isinstance(x_, ast.Call) else dotted(x_)
        for gid, matchers, exc in table:
            problems = []
            for mi, m_ in enumerate(matchers):
                found = False
                for cn in cfg.nodes:
                    if cn.kind != 'cond' or cn.ast is None or not isinstance(cn.ast, ast.expr):
                        continue
                    pol = m_(cn.ast, res, roles)
                    if pol is None:
                        continue
                    found = True
                    bad_edge = [w for (w, lab) in cfg.succ[cn.idx] if lab is pol]
                    reach = cfg.reachable(bad_edge, skip_back=False)
                    if not getattr(m_, 'conditional', False) and not cfg.dominates(cn.idx, rn):
                        problems.append('`%s` is not tested on every path to the result' % src(cn.ast))
                    elif rn in reach:
                        problems.append('the outcome of `%s` that must be rejected reaches the result'
                                        % src(cn.ast))
                    elif not any(raises.get(x_) == exc for x_ in reach):
                        problems.append('the rejected outcome of `%s` does not raise %s' % (src(cn.ast), exc))
                if not found:
                    problems.append('no such test (part %d of %d)' % (mi + 1, len(matchers)))
            ctx.check('%s/%s' % (name, gid), not problems,
                      '%s: rejection `%s` (%s) is taken on exactly the documented outcome and '
                      'dominates the result' % (name, gid, exc),
                      '%s: rejection `%s`: %s' % (name, gid, '; '.join(problems)), mod.loc(fn))
    # the input is flattened with the flags of the two treespecs: none_is_leaf of the outer one
    # (they were just checked to be equal) and the namespace of whichever treespec carries one
    fn = mod.func('tree_transpose')
    fl = [c for c in calls_under(fn) if call_name(c) == 'tree_flatten']
    ctx.require(len(fl) == 1, 'tree_transpose: %d tree_flatten calls' % len(fl))
    kw = {k.arg: k.value for k in fl[0].keywords}
    nsv = kw.get('namespace')
    text = src(nsv) if nsv is not None else ''
    if isinstance(nsv, ast.Name):
        defs = [s_ for s_ in fn.body if isinstance(s_, ast.Assign) and is_name(s_.targets[0], nsv.id)]
        text = ' '.join(src(d_.value) for d_ in defs)
    tr = _transpose_roles(fn)
    ctx.require(tr is not None, 'tree_transpose: outer / inner treespec not recognised')
    ctx.check('tree_transpose/namespace-of-both', '%s.namespace' % tr['outer'] in text and
              '%s.namespace' % tr['inner'] in text,
              'tree_transpose flattens in the namespace of whichever treespec carries one',
              'tree_transpose flattens with namespace=%s: when only the other treespec carries a '
              'namespace its custom nodes / dict-order mode are ignored' % (text or None), mod.loc(fl[0]))
    nil = kw.get('none_is_leaf')
    ctx.check('tree_transpose/none_is_leaf-of-treespecs', nil is not None and
              src(nil) in ('%s.none_is_leaf' % tr['outer'], '%s.none_is_leaf' % tr['inner']),
              'tree_transpose flattens with the treespecs\' none_is_leaf', None, mod.loc(fl[0]))
    # transpose regrouping: chunk width == stride == inner_size, outer.unflatten consumes the
    # transposed groups, inner.unflatten the subtrees (F5, syntactic)
    fn = mod.func('tree_transpose')
    comp = None
    for s in walk(fn):
        if isinstance(s, ast.ListComp) and isinstance(s.elt, ast.Subscript) and \
                isinstance(s.elt.slice, ast.Slice):
            comp = s
    ok = False
    why = 'regrouping comprehension not found'
    if comp is not None:
        sl = comp.elt.slice
        g = comp.generators[0]
        lo, hi = src(sl.lower), src(sl.upper)
        rng = g.iter
        if isinstance(rng, ast.Call) and call_name(rng) == 'range' and len(rng.args) == 3:
            start, stop, step = [src(a) for a in rng.args]
            var = g.target.id if isinstance(g.target, ast.Name) else None
            width = None
            m = re.fullmatch(r'%s \+ (\w+)' % re.escape(var or '?'), hi) or \
                re.fullmatch(r'(\w+) \+ %s' % re.escape(var or '?'), hi)
            if m and lo == var:
                width = m.group(1)
            roles = _transpose_roles(fn)
            sizes = {}      # local -> which treespec's num_leaves it holds
            for s_ in fn.body:
                for who in ('outer', 'inner'):
                    m_ = pmatch(s_, '?v = %s.num_leaves' % roles[who])
                    if m_ is not None:
                        sizes[m_['v']] = who
            mstop = re.fullmatch(r'(\w+) \* (\w+)', stop)
            ok = width is not None and step == width and start == '0' and sizes.get(width) == 'inner' and \
                mstop is not None and sorted(sizes.get(x, '?') for x in mstop.groups()) == ['inner', 'outer']
            why = 'slice [%s:%s] over range(%s, %s, %s)' % (lo, hi, start, stop, step)
    ctx.check('tree_transpose/chunks', ok,
              'tree_transpose cuts the m*n leaves into m chunks of width n = stride n = inner_size',
              'tree_transpose regrouping is not `leaves[o:o+inner_size] for o in range(0, '
              'outer_size*inner_size, inner_size)`: %s' % why, mod.loc(fn))
    for name in ('tree_transpose', 'tree_transpose_map', 'tree_transpose_map_with_path',
                 'tree_transpose_map_with_accessor'):
        fn = mod.func(name)
        roles = _transpose_roles(fn)
        ctx.require(roles is not None, '%s: outer / inner treespec not recognised' % name)
        env = {'outer': roles['outer'], 'inner': roles['inner']}
        ok = False
        # (explaining variables are inlined by the front end: one expression)
        last = fn.body[-1]
        if isinstance(last, ast.Return) and last.value is not None and \
                pmatch(last.value, '?inner.unflatten(map(?outer.unflatten, zip(*?g)))', env) is not None:
            ok = True
        for s1 in fn.body:
            e1 = pmatch(s1, '?tr = zip(*?g)', env)
            if e1 is None:
                continue
            for s2 in fn.body:
                e2 = pmatch(s2, '?st = map(?outer.unflatten, ?tr)', e1)
                if e2 is not None and isinstance(fn.body[-1], ast.Return) and \
                        pmatch(fn.body[-1].value, '?inner.unflatten(?st)', e2) is not None:
                    ok = True
        ctx.check(name + '/zip-transpose', ok,
                  '%s: zip(*grouped) swaps the two dimensions; outer.unflatten rebuilds each '
                  'column, inner.unflatten the result' % name,
                  '%s: the tail is not zip(*grouped) -> map(outer.unflatten) -> inner.unflatten'
                  % name, mod.loc(fn))


# ---------------------------------------------------------------------------------------------
F7_TABLE = {
    'tree_reduce': ('tree_leaves', {'functools.reduce'}),
    'tree_sum': ('tree_leaves', {'sum', "''.join", "b''.join"}),
    'tree_max': ('tree_leaves', {'max'}),
    'tree_min': ('tree_leaves', {'min'}),
    'tree_all': ('tree_iter', {'all'}),
    'tree_any': ('tree_iter', {'any'}),
}


@rule('F7', floor=6, title='reductions are plain folds over tree_leaves / tree_iter')
def f7(ctx):
    pkg = ctx.py()
    mod = pkg.mod('optree.ops')
    for name, (source, folds) in F7_TABLE.items():
        fn = mod.func(name)
        srcs = [c for c in calls_under(fn) if call_name(c) == source]
        ok = len(srcs) == 1 and bool(srcs[0].args) and is_name(srcs[0].args[0], tree_param(fn))
        var = None
        for s in fn.body:
            tg = _assign_targets(s)
            if tg and len(tg) == 1 and s.value is srcs[0] if srcs else False:
                var = tg[0]
        used = set()
        for r in [s for s in walk(fn) if isinstance(s, ast.Return)]:
            if isinstance(r.value, ast.Call):
                cn = call_name(r.value) or src(r.value.func)
                used.add(cn)
                args = r.value.args
                feeds = any(is_name(a, var) or a is (srcs[0] if srcs else None) or
                            (isinstance(a, ast.List) and any(isinstance(e, ast.Starred) and
                                                             is_name(e.value, var) for e in a.elts))
                            for a in args)
                if not feeds:
                    ok = False
            else:
                ok = False
        ok = ok and used and used <= folds
        ctx.check(name + '/fold', bool(ok),
                  '%s folds %s(tree, ...) with %s' % (name, source, sorted(used)),
                  '%s is not a fold of %s(tree, ...) with one of %s (found %s)'
                  % (name, source, sorted(folds), sorted(used)), mod.loc(fn))


# ---------------------------------------------------------------------------------------------
# positional arguments are given as positions of the function's own positional parameters ($0,
# $1: they are positional-only, so their spelling is not part of the interface); keywords by name
F9_TABLE = {
    'treespec_tuple': ('tuple', ['$0'], {}),
    'treespec_list': ('list', ['$0'], {}),
    'treespec_dict': ('dict', ['$0'], {'**': 'kwargs'}),
    'treespec_ordereddict': ('OrderedDict', ['$0'], {'**': 'kwargs'}),
    'treespec_defaultdict': ('defaultdict', ['$0', '$1'], {'**': 'kwargs'}),
    'treespec_deque': ('deque', ['$0'], {'maxlen': 'maxlen'}),
}
F9_GUARDED = {'treespec_namedtuple': ('is_namedtuple_instance', 'namedtuple'),
              'treespec_structseq': ('is_structseq_instance', 'structseq')}


@rule('F9', floor=8, title='each treespec_<kind> constructor builds the container its name says')
def f9(ctx):
    pkg = ctx.py()
    mod = pkg.mod('optree.ops')
    calias = _c_alias(mod)
    for name, (ctor, pos, kws) in F9_TABLE.items():
        fn = mod.func(name)
        mk = [c for c in calls_under(fn) if call_name(c) == calias + '.make_from_collection']
        ctx.require(len(mk) == 1 and mk[0].args,
                    '%s: expected exactly one %s.make_from_collection(<collection>, ...) call' % (name, calias))
        ok = True
        why = ''
        if ok:
            a0 = mk[0].args[0] if mk[0].args else None
            if isinstance(a0, ast.Name):
                # collection built in an earlier statement
                defs = [s_ for s_ in fn.body if isinstance(s_, ast.Assign) and is_name(s_.targets[0], a0.id)]
                ctx.require(len(defs) == 1, '%s: cannot tell how `%s` is built' % (name, a0.id))
                a0 = defs[0].value
            ctx.require(isinstance(a0, ast.Call), '%s: collection argument `%s` is not a constructor call'
                        % (name, src(a0)))
            ok = call_name(a0) == ctor
            why = 'collection argument is %s' % (src(a0) if a0 is not None else None)
            if ok:
                pp = [a.arg for a in _pos_params(fn)]
                pos = [pp[int(x[1:])] if x.startswith('$') and int(x[1:]) < len(pp) else x for x in pos]
                got_pos = [src(x) for x in a0.args]
                got_kw = {(k.arg or '**'): src(k.value) for k in a0.keywords}
                ok = got_pos == pos and got_kw == kws
                why = '%s(%s, %s)' % (ctor, got_pos, got_kw)
        ctx.check(name + '/container', ok,
                  '%s builds %s(%s%s) and hands it to make_from_collection'
                  % (name, ctor, ', '.join(pos), ''.join(', %s=%s' % kv for kv in kws.items())),
                  '%s: expected %s(%s, %s) - found %s' % (name, ctor, pos, kws, why), mod.loc(fn))
    for name, (pred, param) in F9_GUARDED.items():
        fn = mod.func(name)
        cfg, guards = _guards(mod, fn)
        mk = [c for c in calls_under(fn) if call_name(c) == calias + '.make_from_collection']
        ok = False
        pp = [a.arg for a in _pos_params(fn)]
        what, param = param, (pp[0] if pp else param)
        if len(mk) == 1 and mk[0].args and is_name(mk[0].args[0], param):
            for s, e in guards:
                t = src(s.test)
                if t == 'not %s(%s)' % (pred, param) and e == 'ValueError':
                    cn = [cfg.node_of(x) for x in walk(s.test)]
                    cn = [c for c in cn if c is not None and cfg.nodes[c].kind == 'cond']
                    if cn and cfg.dominates(cn[0], cfg.node_of(mk[0])):
                        ok = True
        ctx.check(name + '/guard', ok,
                  '%s rejects non-%s arguments with ValueError before building the treespec' % (name, what),
                  '%s: the %s guard does not dominate make_from_collection' % (name, pred), mod.loc(fn))


# ---------------------------------------------------------------------------------------------
def _cxx_bool_expr(prog, f, rename):
    """render the single-return boolean of a small C++ accessor as normalised text"""
    from .common import member_path

    def r(n):
        if n is None:
            return '?'
        if n.kind == 'BinaryOperator':
            op = {'&&': 'and', '||': 'or'}.get(n.op, n.op)
            return '(%s %s %s)' % (r(n.kids[0]), op, r(n.kids[1]))
        if n.kind == 'CXXMemberCallExpr':
            return rename.get(n.callee_name(), n.callee_name() + '()')
        if n.kind == 'IntegerLiteral':
            return str(n.value)
        if n.kind == 'DeclRefExpr':
            return (n.ref or {}).get('name')
        return n.text(3)
    return r


def _py_bool_expr(e):
    if isinstance(e, ast.BoolOp):
        op = 'and' if isinstance(e.op, ast.And) else 'or'
        out = _py_bool_expr(e.values[0])
        for v in e.values[1:]:
            out = '(%s %s %s)' % (out, op, _py_bool_expr(v))
        return out
    if isinstance(e, ast.Compare) and len(e.ops) == 1:
        op = {ast.Eq: '==', ast.NotEq: '!='}.get(type(e.ops[0]), '?')
        return '(%s %s %s)' % (_py_bool_expr(e.left), op, _py_bool_expr(e.comparators[0]))
    if isinstance(e, ast.BinOp) and isinstance(e.op, ast.Add):
        return '(%s + %s)' % (_py_bool_expr(e.left), _py_bool_expr(e.right))
    if isinstance(e, ast.Attribute) and isinstance(e.value, ast.Name):
        return e.attr
    if isinstance(e, ast.Constant):
        return str(e.value)
    if isinstance(e, ast.Name):
        return e.id
    return src(e)


@rule('T6', floor=3, title='Python re-implementations of treespec predicates use the engine\'s formulas')
def t6(ctx):
    pkg = ctx.py()
    prog = ctx.cxx()
    mod = pkg.mod('optree.ops')
    tab = binding_table(prog)
    rename = {}
    for (owner, name), b in tab.items():
        if owner == 'PyTreeSpec' and b.kind == 'def_property_readonly' and b.target:
            rename[b.target] = name
    # engine formulas
    isleaf = prog.one('PyTreeSpec::IsLeaf')
    onelevel = prog.one('PyTreeSpec::IsOneLevel')
    r = _cxx_bool_expr(prog, isleaf, rename)
    rets = [n for n in isleaf.body.walk() if n.kind == 'ReturnStmt']
    ctx.require(len(rets) == 2, 'PyTreeSpec::IsLeaf: expected two returns (strict / non-strict)')
    # the return under `if (strict)` is the strict formula
    from .common import enclosing_map, ancestors
    parent = enclosing_map(isleaf.body)
    strict_f = nonstrict_f = None
    for x in rets:
        under_if = [a for a in ancestors(x, parent) if a.kind == 'IfStmt']
        if under_if:
            strict_f = r(x.kids[0])
        else:
            nonstrict_f = r(x.kids[0])
    ol = [n for n in onelevel.body.walk() if n.kind == 'ReturnStmt']
    onelevel_f = _cxx_bool_expr(prog, onelevel, rename)(ol[0].kids[0])
    # python formulas
    fn = mod.func('treespec_is_leaf')
    py_strict = py_non = None
    for s in fn.body:
        if isinstance(s, ast.If) and is_name(s.test, 'strict'):
            rs = [x for x in s.body if isinstance(x, ast.Return)]
            if len(rs) == 1 and all(isinstance(x, (ast.Return, ast.Pass)) for x in s.body):
                py_strict = _py_bool_expr(rs[0].value)
        elif isinstance(s, ast.Return):
            py_non = _py_bool_expr(s.value)
    ctx.check('treespec_is_leaf/strict', py_strict == strict_f,
              'treespec_is_leaf(strict=True) == %s (engine: PyTreeSpec::IsLeaf)' % strict_f,
              'treespec_is_leaf strict formula %s differs from the engine\'s %s' % (py_strict, strict_f),
              mod.loc(fn))
    ctx.check('treespec_is_leaf/non-strict', py_non == nonstrict_f,
              'treespec_is_leaf(strict=False) == %s' % nonstrict_f,
              'treespec_is_leaf non-strict formula %s differs from the engine\'s %s' % (py_non, nonstrict_f),
              mod.loc(fn))
    fn = mod.func('treespec_is_strict_leaf')
    ret = [s for s in fn.body if isinstance(s, ast.Return)]
    got = _py_bool_expr(ret[0].value) if ret else None
    ctx.check('treespec_is_strict_leaf', got == strict_f,
              'treespec_is_strict_leaf == %s' % strict_f,
              'treespec_is_strict_leaf formula %s differs from the engine\'s %s' % (got, strict_f),
              mod.loc(fn))
    fn = mod.func('treespec_is_one_level')
    ret = [s for s in fn.body if isinstance(s, ast.Return)]
    got = _py_bool_expr(ret[0].value) if ret else None
    ctx.check('treespec_is_one_level', got == onelevel_f,
              'treespec_is_one_level == %s' % onelevel_f,
              'treespec_is_one_level formula %s differs from the engine\'s %s' % (got, onelevel_f),
              mod.loc(fn))


# ---------------------------------------------------------------------------------------------
@rule('K7py', floor=3, title='tree_flatten_one_level validates the custom flatten result like the engine')
def k7py(ctx):
    pkg = ctx.py()
    mod = pkg.mod('optree.ops')
    fn = mod.func('tree_flatten_one_level')
    cfg = pycfg(fn)
    rets = [s for s in walk(fn) if isinstance(s, ast.Return)]
    ctx.require(len(rets) == 1, 'tree_flatten_one_level: %d returns' % len(rets))
    rn = cfg.node_of(rets[0])
    raises = [s for s in walk(fn) if isinstance(s, ast.Raise)]
    tests = {'length': False, 'entries': False, 'leaf-first': False}
    for s in walk(fn):
        if not isinstance(s, ast.If):
            continue
        chain = [s]
        t = src(s.test)
        body_raises = [b for b in s.body if isinstance(b, ast.Raise)]
        else_if = s.orelse[0] if len(s.orelse) == 1 and isinstance(s.orelse[0], ast.If) else None
        if re.search(r'len\(\w+\) == 2', t) and else_if is not None and \
                re.search(r'len\(\w+\) != 3', src(else_if.test)) and \
                any(isinstance(b, ast.Raise) and call_name(b.exc) == 'RuntimeError' for b in else_if.body):
            c1 = cfg.node_of(s.test)
            c2 = cfg.node_of(else_if.test)
            if c1 is not None and c2 is not None and cfg.dominates(c1, rn):
                f_succ = [w for (w, lab) in cfg.succ[c1] if lab is False]
                tests['length'] = rn not in cfg.reachable(f_succ, skip_nodes={c2})
        if re.search(r'len\((\w+)\) != len\((\w+)\)', t) and body_raises and \
                call_name(body_raises[0].exc) == 'RuntimeError':
            cn = cfg.node_of(s.test)
            tests['entries'] = cn is not None and cfg.dominates(cn, rn)
    # leafness (None under none_is_leaf, predicate) decided before the registry is consulted
    gets = [c for c in calls_under(fn) if call_name(c) == 'register_pytree_node.get']
    preds = [c for c in calls_under(fn) if call_name(c) == 'is_leaf']
    if gets and preds:
        g, p = cfg.node_of(gets[0]), cfg.node_of(preds[0])
        t_succ = [w for (w, lab) in cfg.succ[p] if lab is True]
        tests['leaf-first'] = g not in cfg.reachable(t_succ) and p not in cfg.reachable([g]) and \
            cfg.nodes[p].kind == 'cond'
    ctx.check('tree_flatten_one_level/length', tests['length'],
              'a flatten result that is not a 2- or 3-tuple raises RuntimeError before anything is built',
              'the 2-or-3 length test (RuntimeError) is missing or does not dominate the result', mod.loc(fn))
    ctx.check('tree_flatten_one_level/entries', tests['entries'],
              'children/entries count mismatch raises RuntimeError before the result is built',
              'the entries-count test (RuntimeError) is missing or does not dominate the result', mod.loc(fn))
    ctx.check('tree_flatten_one_level/leaf-first', tests['leaf-first'],
              'leafness (None under none_is_leaf, predicate) is decided before the registry lookup',
              'the registry is consulted before / despite the leaf predicate', mod.loc(fn))


@rule('P2py', floor=3, title='prefix_errors only ever reports ValueError and never sorts keys with the builtin order')
def p2py(ctx):
    pkg = ctx.py()
    mod = pkg.mod('optree.ops')
    fn = mod.func('prefix_errors.helper')
    exc_calls = []
    for c in calls_under(fn, skip_nested_defs=False):
        cn = call_name(c) or ''
        if re.fullmatch(r'[A-Z]\w*(Error|Exception|Warning)', cn):
            exc_calls.append((c, cn))
    ctx.require(exc_calls, 'prefix_errors.helper constructs no exception')
    bad = [(c, n) for c, n in exc_calls if n != 'ValueError']
    ctx.check('prefix_errors/only-ValueError', not bad,
              'prefix_errors constructs only ValueError (%d sites)' % len(exc_calls),
              'prefix_errors constructs %s' % sorted({n for _, n in bad}), mod.loc(fn))
    builtin_sorts = [c for c in calls_under(fn) if call_name(c) in ('sorted', 'min', 'max')
                     or (call_name(c) or '').endswith('.sort')]
    for i, c in enumerate(builtin_sorts):
        ctx.bad('prefix_errors/builtin-order#%d' % i,
                'prefix_errors applies `%s` to tree keys: keys of mixed or unorderable types raise '
                'TypeError here, where flatten_up_to raises ValueError (use total_order_sorted)'
                % src(c)[:80], mod.loc(c))
    if not builtin_sorts:
        ctx.ok('prefix_errors/builtin-order', 'prefix_errors does not use sorted/min/max on keys',
               mod.loc(fn))
    asserts = [s for s in walk(fn) if isinstance(s, ast.Assert)]
    for i, a in enumerate(asserts):
        ctx.bad('prefix_errors/assert#%d' % i,
                'prefix_errors asserts `%s` on values derived from user trees: a custom node whose '
                'entries depend on its content raises AssertionError where flatten_up_to succeeds'
                % src(a.test)[:80], mod.loc(a))
    if not asserts:
        ctx.ok('prefix_errors/assert', 'prefix_errors contains no assert on tree-derived values',
               mod.loc(fn))


@rule('K9py', floor=1, title='Python-level recursion over tree depth is enumerated')
def k9py(ctx):
    pkg = ctx.py()
    mod = pkg.mod('optree.ops')
    n = 0
    for qual, fn in sorted(mod.funcs.items()):
        short = qual.split('.')[-1]
        selfcalls = [c for c in calls_under(fn) if call_name(c) == short]
        if not selfcalls:
            continue
        n += 1
        bounded = any('MAX_RECURSION_DEPTH' in src(s) for s in walk(fn) if isinstance(s, ast.Compare))
        ctx.check('%s/recursion-bounded' % qual, bounded,
                  '%s recurses per tree level and checks MAX_RECURSION_DEPTH' % qual,
                  '%s recurses once per tree level in Python (generator frames): a tree within '
                  'MAX_RECURSION_DEPTH that every engine operation handles raises Python\'s '
                  'RecursionError here' % qual, mod.loc(fn))
    ctx.require(n >= 1, 'no self-recursive function found in ops.py (prefix_errors.helper is one)')


# ---------------------------------------------------------------------------------------------
@rule('F11', floor=2, title='n-ary broadcasting is two unconditional passes of pairwise broadcasting against the running result')
def f11(ctx):
    """Domain fact: folding `tree_broadcast_common(running, rest_i)` over the operands once leaves
    the operands that were broadcast early ignorant of refinements contributed by later operands;
    a second pass over *every* operand fixes that (the result of pass one is a common suffix of
    all of them, so pass two changes no structure but brings each operand up to it).  Skipping an
    operand in the second pass by any cheaper test (leaf count, identity) is wrong: a refinement
    can keep the leaf count (a one-leaf subtree, a None next to a split)."""
    pkg = ctx.py()
    mod = pkg.mod('optree.ops')
    fn = mod.func('_tree_broadcast_common')
    rests = fn.args.vararg.arg if fn.args.vararg else None
    ctx.require(rests is not None, '_tree_broadcast_common has no *rests parameter')
    parents = {}
    for n in ast.walk(fn):
        for c in ast.iter_child_nodes(n):
            parents[id(c)] = n
    passes = 0
    conditional = []
    bad_running = []
    for loop in [n for n in walk(fn) if isinstance(n, ast.For) and rests in names_in(n.iter)]:
        calls = [c for c in calls_under(loop) if call_name(c) == 'tree_broadcast_common']
        if not calls:
            continue
        for c in calls:
            p = parents.get(id(c))
            while p is not None and p is not loop:
                if isinstance(p, (ast.If, ast.IfExp, ast.Try, ast.While)):
                    conditional.append(c)
                p = parents.get(id(p))
            # running result: first argument is re-assigned from the call's first result
            asg = parents.get(id(c))
            ok = isinstance(asg, ast.Assign) and isinstance(asg.targets[0], ast.Tuple) and \
                len(asg.targets[0].elts) == 2 and c.args and \
                src(asg.targets[0].elts[0]) == src(c.args[0])
            if not ok:
                bad_running.append(c)
        mult = 1
        p = parents.get(id(loop))
        while p is not None and p is not fn:
            if isinstance(p, ast.For):
                m = pmatch(p.iter, 'range(??k)')
                k = p.iter.args[0].value if m is not None and isinstance(p.iter.args[0], ast.Constant) else 1
                mult *= k if isinstance(k, int) else 1
            p = parents.get(id(p))
        passes += mult
    ctx.check('_tree_broadcast_common/two-passes', passes >= 2,
              'every operand is broadcast against the running result in %d passes' % passes,
              'the operands are broadcast against the running result in %d pass(es) only: operands '
              'broadcast early miss the refinements of later operands' % passes, mod.loc(fn))
    ctx.check('_tree_broadcast_common/unconditional', not conditional and not bad_running,
              'no operand is skipped in any pass and the running result is threaded through',
              'a pairwise broadcast is %s: an operand whose structure must still change can be left '
              'behind (tree_broadcast_map then raises on compatible operands)'
              % ('conditional (%s)' % mod.loc(conditional[0]) if conditional else
                 'not threaded through the running result'), mod.loc(fn))


    # every early return accounts for every operand: a shortcut taken when there are exactly K
    # rests hands on rests[0] .. rests[K-1]; with no rests the tree alone is returned
    cfg = pycfg(fn)
    tree_p = _pos_params(fn)[0].arg if _pos_params(fn) else None
    problems = []
    early = [r for r in walk(fn) if isinstance(r, ast.Return)][:-1]
    for r in early:
        rn = cfg.ast_to_node.get(id(r))
        # the guard: the dominating test(s) of `rests` / `len(rests)`
        k = None
        for cn in cfg.nodes:
            if cn.kind != 'cond' or cn.ast is None or not cfg.dominates(cn.idx, rn):
                continue
            t_reach = cfg.reachable([w for (w, lab) in cfg.succ[cn.idx] if lab is True], skip_back=False)
            f_reach = cfg.reachable([w for (w, lab) in cfg.succ[cn.idx] if lab is False], skip_back=False)
            if (rn in t_reach) == (rn in f_reach):
                continue
            outcome = rn in t_reach
            e = cn.ast
            if isinstance(e, ast.Name) and e.id == rests:
                k = 0 if outcome is False else k
            m = pmatch(e, 'len(?r) == ??k', {'r': rests}) if isinstance(e, ast.expr) else None
            if m is not None and outcome is True and isinstance(e.comparators[0], ast.Constant):
                k = e.comparators[0].value
        used = sorted({n.slice.value for n in walk(r) if isinstance(n, ast.Subscript) and
                       isinstance(n.value, ast.Name) and n.value.id == rests and
                       isinstance(n.slice, ast.Constant)})
        whole = any(isinstance(n, ast.Starred) and is_name(n.value, rests) for n in walk(r))
        if k is None:
            problems.append('the early return at line %d is not under a test of the number of operands' % r.lineno)
        elif not whole and used != list(range(k)):
            problems.append('the early return at line %d is taken for %d further operand(s) but hands on %s'
                            % (r.lineno, k, ['%s[%d]' % (rests, i) for i in used] or 'none of them'))
        elif tree_p and tree_p not in names_in(r):
            problems.append('the early return at line %d drops the first operand' % r.lineno)
    ctx.check('_tree_broadcast_common/shortcuts-keep-every-operand', not problems,
              'each early return of _tree_broadcast_common hands on exactly the operands its guard counts',
              '_tree_broadcast_common: %s: operands are lost (or invented) for that number of trees'
              % '; '.join(problems), mod.loc(fn))


# ---------------------------------------------------------------------------------------------
# re-implemented in Python on purpose; T6 compares their formulas with the engine's
F12_TWINS = {'treespec_is_leaf', 'treespec_is_strict_leaf', 'treespec_is_one_level'}


@rule('F12', floor=8, title='every treespec_<method>() wrapper calls that method of its first argument with its own arguments in the engine\'s order')
def f12(ctx):
    """Found generically: a function treespec_<m> of optree.ops whose first positional parameter
    is annotated PyTreeSpec, where the engine binds a PyTreeSpec method <m>.  The wrapper must
    return <first>.<m>(...) and hand each of its remaining parameters to the binding argument of
    the same position (positional) or the same name (keyword) - so treespec_transform(spec, f_node,
    f_leaf) cannot swap the two callbacks and treespec_is_suffix cannot call is_prefix."""
    pkg = ctx.py()
    prog = ctx.cxx()
    mod = pkg.mod('optree.ops')
    tab = binding_table(prog)
    n = 0
    for q, fn in sorted(mod.funcs.items()):
        if '.' in q or not q.startswith('treespec_'):
            continue
        m = q[len('treespec_'):]
        b = tab.get(('PyTreeSpec', m))
        pp = _pos_params(fn)
        if b is None or not pp or pp[0].annotation is None or not src(pp[0].annotation).startswith('PyTreeSpec'):
            continue
        if b.kind != 'def':
            continue          # properties are compared by T6
        if q in F12_TWINS:
            # a Python re-implementation of the engine method (a twin): its formula is compared
            # with the engine's by T6
            ctx.info(q + '/twin', '%s re-implements PyTreeSpec.%s in Python (compared by T6)' % (q, m),
                     mod.loc(fn))
            continue
        n += 1
        body = [s_ for s_ in fn.body if not (isinstance(s_, ast.Expr) and isinstance(s_.value, ast.Constant))
                and not isinstance(s_, ast.Pass)]
        ok = len(body) == 1 and isinstance(body[0], ast.Return) and isinstance(body[0].value, ast.Call) and \
            isinstance(body[0].value.func, ast.Attribute) and is_name(body[0].value.func.value, pp[0].arg) and \
            body[0].value.func.attr == m
        why = 'is not `return <treespec>.%s(...)`' % m
        if ok:
            call = body[0].value
            bargs = [a[0] for a in b.args]
            own = [a.arg for a in pp[1:]] + [a.arg for a in fn.args.kwonlyargs]
            got = {}
            for i, a in enumerate(call.args):
                if i < len(bargs):
                    got[bargs[i]] = src(a)
            for k in call.keywords:
                if k.arg:
                    got[k.arg] = src(k.value)
            # each own parameter, in order, must land in the binding argument of the same index
            want = {bargs[i]: own[i] for i in range(min(len(own), len(bargs)))}
            ok = got == want and len(own) == len(bargs)
            why = 'passes %s, the engine method takes %s' % (got, bargs)
        ctx.check(q + '/thin', ok,
                  '%s returns its first argument\'s %s() with its own arguments in the engine\'s order' % (q, m),
                  '%s %s' % (q, why), mod.loc(fn))
    ctx.require(n >= 8, 'only %d treespec_<method> wrappers found' % n)


@rule('F13', floor=2, title='prefix broadcasting repeats each prefix leaf once per leaf of the matching subtree')
def f13(ctx):
    pkg = ctx.py()
    mod = pkg.mod('optree.ops')
    for name, mapper in (('tree_broadcast_prefix', 'tree_map'), ('broadcast_prefix', 'tree_map_')):
        fn = mod.func(name)
        pp = [a.arg for a in _pos_params(fn)]
        inner = [f_ for q_, f_ in mod.funcs.items() if q_.startswith(name + '.') and q_.count('.') == 1]
        ctx.require(len(inner) == 1 and len(pp) >= 2, '%s: helper function / parameters not recognised' % name)
        h = inner[0]
        hp = [a.arg for a in h.args.posonlyargs + h.args.args]
        ctx.require(len(hp) == 2, '%s: helper takes %d parameters' % (name, len(hp)))
        env = {'x': hp[0], 'sub': hp[1]}
        spec = None
        for s_ in h.body:
            if isinstance(s_, ast.Assign) and isinstance(s_.value, ast.Call) and \
                    call_name(s_.value) == 'tree_structure' and s_.value.args and is_name(s_.value.args[0], hp[1]):
                spec = s_.targets[0].id if isinstance(s_.targets[0], ast.Name) else None
        reps = [c for c in calls_under(h) if call_name(c) == 'itertools.repeat']
        ok = spec is not None and len(reps) == 1 and \
            pmatch(reps[0], 'itertools.repeat(?x, ?spec.num_leaves)', dict(env, spec=spec)) is not None
        # the helper is mapped over (prefix, full) in this order with the caller's options
        mc = [c for c in calls_under(fn) if call_name(c) == mapper]
        okm = len(mc) == 1 and len(mc[0].args) == 3 and is_name(mc[0].args[0], h.name) and \
            is_name(mc[0].args[1], pp[0]) and is_name(mc[0].args[2], pp[1])
        ctx.check(name + '/replication', ok and okm,
                  '%s maps a helper over (prefix, full) that repeats the prefix leaf num_leaves(subtree) '
                  'times, the subtree being the helper\'s second argument' % name,
                  '%s: %s' % (name, 'the helper does not repeat its first argument '
                                    'tree_structure(<second argument>).num_leaves times' if not ok else
                              'the helper is not mapped over (prefix_tree, full_tree) in this order'),
                  mod.loc(fn))


A6_MODULES = ('optree.ops', 'optree.registry', 'optree.utils', 'optree.functools', 'optree.dataclasses')


@rule('A6', floor=1, title='a caller\'s mapping is indexed only with keys known to be in it')
def a6(ctx):
    """`d[k]` on a user mapping is not a pure read: a defaultdict answers a missing key by inserting
    `default_factory()`.  Every subscript read with a computed key on a non-fresh object in the
    Python package must be reachable only after a key-set comparison has excluded missing keys
    (the keys iterated over are compared, as a set, with another key set and the unequal outcome
    cannot reach the read)."""
    pkg = ctx.py()
    sites = 0
    for mname in A6_MODULES:
        mod = pkg.mod(mname)
        for q, fn in sorted(mod.funcs.items()):
            subs = []
            for n in walk(fn):
                if isinstance(n, ast.Subscript) and isinstance(n.ctx, ast.Load) and \
                        isinstance(n.value, ast.Name) and isinstance(n.slice, ast.Name):
                    subs.append(n)
            if not subs:
                continue
            # locals bound to something fresh in this function (a literal, a comprehension, a
            # constructor call of a builtin container) are not the caller's
            fresh = set()
            sets = {}          # name -> source name of `name = set(<source>)`
            for n in walk(fn):
                if isinstance(n, ast.Assign) and len(n.targets) == 1 and isinstance(n.targets[0], ast.Name):
                    v = n.value
                    if isinstance(v, (ast.Dict, ast.List, ast.ListComp, ast.DictComp, ast.Tuple)):
                        fresh.add(n.targets[0].id)
                    if isinstance(v, ast.Call) and call_name(v) in ('set', 'frozenset') and len(v.args) == 1 and \
                            isinstance(v.args[0], ast.Name):
                        sets[n.targets[0].id] = v.args[0].id
            in_ann = set()
            for n in walk(fn):
                for fld in ('annotation', 'returns'):
                    a_ = getattr(n, fld, None)
                    if a_ is not None:
                        in_ann |= {id(x) for x in ast.walk(a_)}
            cfg = None
            for s_ in subs:
                if id(s_) in in_ann or s_.value.id in fresh or s_.value.id[:1].isupper() or \
                        s_.slice.id[:1].isupper():
                    continue
                # the key: a comprehension / loop variable ranging over a name
                key = s_.slice.id
                source = None
                for n in walk(fn):
                    if isinstance(n, ast.comprehension) and isinstance(n.target, ast.Name) and \
                            n.target.id == key and isinstance(n.iter, ast.Name):
                        source = n.iter.id
                    if isinstance(n, ast.For) and isinstance(n.target, ast.Name) and n.target.id == key and \
                            isinstance(n.iter, ast.Name):
                        source = n.iter.id
                sites += 1
                if cfg is None:
                    cfg = pycfg(fn)
                sn = cfg.ast_to_node.get(id(s_))
                ok = False
                if source is not None and sn is not None:
                    for cn in cfg.nodes:
                        e = cn.ast
                        if cn.kind != 'cond' or not isinstance(e, ast.Compare) or len(e.ops) != 1 or \
                                not isinstance(e.ops[0], (ast.NotEq, ast.Eq)) or \
                                not isinstance(e.left, ast.Name) or not isinstance(e.comparators[0], ast.Name):
                            continue
                        a_, b_ = e.left.id, e.comparators[0].id
                        if source not in (sets.get(a_), sets.get(b_)) or a_ not in sets or b_ not in sets:
                            continue
                        unequal = isinstance(e.ops[0], ast.NotEq)
                        bad = [w for (w, lab) in cfg.succ[cn.idx] if lab is unequal]
                        if cfg.dominates(cn.idx, sn) and sn not in cfg.reachable(bad, skip_back=False):
                            ok = True
                ctx.check('%s/%s[%s]' % (q, s_.value.id, key), ok,
                          '%s: `%s` is read only after the key sets were found equal' % (q, src(s_)),
                          '%s: `%s` can be evaluated with a key the mapping does not have (no key-set '
                          'comparison excludes it): on a defaultdict the read inserts default_factory() into '
                          'the caller\'s tree' % (q, src(s_)), mod.loc(s_))
    ctx.analysed['computed_key_reads'] = sites


MUTATORS = {'append', 'extend', 'pop', 'update', 'sort', 'insert', 'clear', 'setdefault', 'remove',
            'reverse', 'popitem', 'move_to_end', 'add', 'discard', 'appendleft', 'popleft', 'rotate',
            'extendleft', '__setitem__', '__delitem__', 'difference_update', 'intersection_update'}
FRESH_CALLS = {'list', 'dict', 'set', 'tuple', 'OrderedDict', 'collections.OrderedDict', 'deque',
               'collections.deque', 'defaultdict', 'collections.defaultdict', 'sorted', 'bytearray'}


def _is_fresh_value(v):
    if isinstance(v, (ast.List, ast.Dict, ast.Set, ast.ListComp, ast.DictComp, ast.SetComp)):
        return True
    if isinstance(v, ast.Call):
        if call_name(v) in FRESH_CALLS:
            return True
        if isinstance(v.func, ast.Attribute) and v.func.attr in ('copy', 'fromkeys') and not v.args:
            return True
    return False


def _reaching_bindings(fn, name, use):
    """(does the value at function entry reach `use`?, [values of the assignments to `name` that
    reach `use`]) - None when the use is not a node of the function's CFG.  A binding reaches the
    use if there is a path to it that passes no other binding of the name."""
    cfg = pycfg(fn)
    un = cfg.ast_to_node.get(id(use))
    if un is None:
        return None
    defs = {}          # cfg node -> value (None = unknown value: loop target, with-target, ...)
    for n in walk(fn):
        v = '-'
        if isinstance(n, ast.Assign) and any(isinstance(t, ast.Name) and t.id == name for t in n.targets):
            v = n.value
        elif isinstance(n, ast.AnnAssign) and isinstance(n.target, ast.Name) and n.target.id == name and \
                n.value is not None:
            v = n.value
        elif isinstance(n, ast.AugAssign) and isinstance(n.target, ast.Name) and n.target.id == name:
            v = None
        elif isinstance(n, (ast.For, ast.comprehension)) and \
                any(isinstance(x, ast.Name) and x.id == name for x in ast.walk(n.target)):
            v = None
        elif isinstance(n, ast.With) and any(
                it.optional_vars is not None and any(isinstance(x, ast.Name) and x.id == name
                                                     for x in ast.walk(it.optional_vars)) for it in n.items):
            v = None
        elif isinstance(n, ast.NamedExpr) and n.target.id == name:
            v = n.value
        if v != '-':
            dn = cfg.ast_to_node.get(id(n))
            if dn is None and isinstance(n, ast.For):
                dn = cfg.ast_to_node.get(id(n.target))
            if dn is None:
                return None
            defs[dn] = v
    others = set(defs)
    entry_reaches = un in cfg.reachable([cfg.entry.idx], skip_nodes=others - {un}, skip_back=False) \
        if un not in defs else False
    vals = []
    for dn, v in defs.items():
        starts = [w for (w, lab) in cfg.succ[dn]]
        if dn == un or un in cfg.reachable(starts, skip_nodes=others - {un}, skip_back=False):
            if dn != un:
                vals.append(v)
    return entry_reaches, vals


@rule('A7', floor=8, title='the Python package mutates in place only containers it created itself')
def a7(ctx):
    """No optree operation mutates its inputs, Python half: every in-place mutation (a mutating
    method, a subscript store / delete, an augmented assignment to a subscript) in the package has
    as receiver a local (or enclosing-function local) that is bound only to fresh containers, the
    `**kwargs` dictionary of the function itself, `self`, or one of the module's own registries
    (those writes are G3's).  A parameter, or a name bound to anything else, is the caller's."""
    pkg = ctx.py()
    sites = 0
    for mname in A6_MODULES + ('optree.accessor', 'optree.typing'):
        mod = pkg.mod(mname)
        module_globals = {t.id for n in mod.tree.body if isinstance(n, (ast.Assign, ast.AnnAssign))
                          for t in (n.targets if isinstance(n, ast.Assign) else [n.target])
                          if isinstance(t, ast.Name)}
        for q, fn in sorted(mod.funcs.items()):
            muts = []     # (receiver expression, node, what)
            for n in walk(fn):
                if isinstance(n, ast.Call) and isinstance(n.func, ast.Attribute) and n.func.attr in MUTATORS:
                    muts.append((n.func.value, n, '.%s()' % n.func.attr))
                elif isinstance(n, (ast.Assign, ast.AugAssign, ast.AnnAssign, ast.Delete)):
                    tg = n.targets if isinstance(n, (ast.Assign, ast.Delete)) else [n.target]
                    for t in tg:
                        for x in ([t] if not isinstance(t, ast.Tuple) else t.elts):
                            if isinstance(x, ast.Subscript):
                                muts.append((x.value, n, 'item store'))
            if not muts:
                continue
            # the chain of enclosing functions (closure variables)
            chain = [fn]
            parts = q.split('.')
            for i in range(len(parts) - 1, 0, -1):
                outer = mod.funcs.get('.'.join(parts[:i]))
                if outer is not None:
                    chain.append(outer)
            for recv, node, what in muts:
                sites += 1
                base = recv
                while isinstance(base, (ast.Attribute, ast.Subscript)):
                    base = base.value
                verdict = None
                if not isinstance(base, ast.Name):
                    verdict = 'a computed object'
                elif base.id in ('self', 'cls'):
                    verdict = None
                else:
                    name = base.id
                    bound = False
                    for f_ in chain:
                        pos, var, kwonly, kw = param_names(f_)
                        if name == kw and recv is base:
                            bound = True           # the function's own **kwargs: fresh per call
                            break
                        is_param = name in pos or name in kwonly or name == var or name == kw
                        if f_ is fn:
                            # flow-sensitive in the function itself: which bindings reach the write
                            r = _reaching_bindings(fn, name, node)
                            if r is not None:
                                entry_reaches, vals_r = r
                                if is_param and entry_reaches:
                                    verdict = 'the parameter `%s`' % name
                                    bound = True
                                    break
                                if vals_r or is_param:
                                    bound = True
                                    if recv is not base:
                                        verdict = 'something reached from `%s`' % name
                                    elif not all(v is not None and _is_fresh_value(v) for v in vals_r):
                                        verdict = '`%s`, which is not bound to a fresh container only' % name
                                    break
                                continue
                        if is_param:
                            verdict = 'the parameter `%s`' % name
                            bound = True
                            break
                        vals = []
                        for n in walk(f_):
                            if isinstance(n, ast.Assign):
                                for t in n.targets:
                                    if isinstance(t, ast.Name) and t.id == name:
                                        vals.append(n.value)
                            elif isinstance(n, ast.AnnAssign) and isinstance(n.target, ast.Name) and \
                                    n.target.id == name and n.value is not None:
                                vals.append(n.value)
                            elif isinstance(n, (ast.For, ast.comprehension)) and \
                                    any(isinstance(x, ast.Name) and x.id == name for x in ast.walk(n.target)):
                                vals.append(None)
                            elif isinstance(n, (ast.With,)):
                                for it in n.items:
                                    if it.optional_vars is not None and any(
                                            isinstance(x, ast.Name) and x.id == name
                                            for x in ast.walk(it.optional_vars)):
                                        vals.append(None)
                        if vals:
                            bound = True
                            if recv is not base:
                                verdict = 'something reached from `%s`' % name
                            elif not all(v is not None and _is_fresh_value(v) for v in vals):
                                verdict = '`%s`, which is not bound to a fresh container only' % name
                            break
                    if not bound:
                        if name in module_globals:
                            verdict = None      # a registry of the module: G3 / D1 decide those writes
                        else:
                            verdict = '`%s`, whose origin is not visible' % name
                ctx.check('%s/%s%s' % (q, src(recv)[:40], what), verdict is None,
                          '%s: `%s` %s writes into a container created by this call' % (q, src(recv)[:40], what),
                          '%s: `%s` %s writes into %s: an in-place change of something the caller owns'
                          % (q, src(recv)[:40], what, verdict), mod.loc(node))
    ctx.analysed['python_mutation_sites'] = sites


OPTION_DEFAULTS = {'none_is_leaf': False, 'namespace': '', 'is_leaf': None}


@rule('F14', floor=60, title='the traversal options have the documented defaults at every public entry point')
def f14(ctx):
    """`none_is_leaf=False`, `namespace=''`, `is_leaf=None` are part of the documented behaviour of
    every entry point (the properties are stated for calls that leave them out).  A default that
    differs at one entry point makes that entry point disagree with its siblings for the same
    call.  Checked on every function of the public modules that has such a parameter, and on the
    engine's binding table."""
    pkg = ctx.py()
    n = 0
    for mname in ('optree.ops', 'optree.registry', 'optree.dataclasses', 'optree.functools',
                  'optree.integration.numpy', 'optree.integration.jax', 'optree.integration.torch'):
        try:
            mod = pkg.mod(mname)
        except Exception:
            continue
        for q, fn in sorted(mod.funcs.items()):
            a = fn.args
            pos = a.posonlyargs + a.args
            pairs = list(zip(pos[len(pos) - len(a.defaults):], a.defaults)) + \
                [(x, d) for x, d in zip(a.kwonlyargs, a.kw_defaults) if d is not None]
            for arg, d in pairs:
                if arg.arg not in OPTION_DEFAULTS:
                    continue
                n += 1
                want = OPTION_DEFAULTS[arg.arg]
                # registry functions use a sentinel / None for "no namespace given": listed, not judged
                if not isinstance(d, ast.Constant):
                    ctx.info('%s.%s/%s' % (mname.split('.')[-1], q, arg.arg),
                             '%s: default of %s is the expression `%s`' % (q, arg.arg, src(d)), mod.loc(fn))
                    continue
                if mname != 'optree.ops' and arg.arg == 'namespace' and d.value is None:
                    ctx.info('%s.%s/%s' % (mname.split('.')[-1], q, arg.arg),
                             '%s: namespace defaults to None (resolved inside)' % q, mod.loc(fn))
                    continue
                ctx.check('%s.%s/%s' % (mname.split('.')[-1], q, arg.arg), d.value == want and
                          type(d.value) is type(want),
                          '%s: %s defaults to %r' % (q, arg.arg, want),
                          '%s: %s defaults to %r, every other entry point uses %r: the same call '
                          'behaves differently here' % (q, arg.arg, d.value, want), mod.loc(fn))
    ctx.analysed['option_defaults'] = n
    # the engine's own entry points (pybind11 argument defaults): the same three options, and the
    # `strict` / `inherit_global_namespace` defaults the Python wrappers and D3 assume
    prog = ctx.cxx()
    bt = binding_table(prog)
    want_cxx = {'none_is_leaf': 'False', 'namespace': '""', 'leaf_predicate': 'nullopt',
                'inherit_global_namespace': 'True'}
    m = 0
    for (owner, name), b in sorted(bt.items()):
        for an, d in b.args:
            if d is None or an not in want_cxx:
                continue
            m += 1
            ctx.check('_C.%s.%s/%s' % (owner, name, an), d == want_cxx[an],
                      '_C %s.%s: %s defaults to %s' % (owner, name, an, want_cxx[an]),
                      '_C %s.%s: %s defaults to %s, every other entry point uses %s'
                      % (owner, name, an, d, want_cxx[an]), getattr(b.node, 'loc', None))
    # is_prefix / is_suffix are non-strict by default, is_leaf strict: the Python wrappers
    # (treespec_is_prefix(..., strict=False), treespec_is_leaf(..., strict=True)) say the same
    mod = pkg.mod('optree.ops')
    for meth, wrapper in (('is_prefix', 'treespec_is_prefix'), ('is_suffix', 'treespec_is_suffix'),
                          ('is_leaf', 'treespec_is_leaf')):
        b = bt.get(('PyTreeSpec', meth))
        fn = mod.funcs.get(wrapper)
        if b is None or fn is None:
            continue
        cd = dict(b.args).get('strict')
        a = fn.args
        pd = None
        for arg, d in list(zip((a.posonlyargs + a.args)[len(a.posonlyargs + a.args) - len(a.defaults):], a.defaults)) + \
                [(x, d) for x, d in zip(a.kwonlyargs, a.kw_defaults) if d is not None]:
            if arg.arg == 'strict' and isinstance(d, ast.Constant):
                pd = str(d.value)
        m += 1
        ctx.check('_C.PyTreeSpec.%s/strict~%s' % (meth, wrapper), cd is not None and cd == pd,
                  'PyTreeSpec.%s and %s agree on strict=%s by default' % (meth, wrapper, cd),
                  'PyTreeSpec.%s defaults to strict=%s, %s to strict=%s: the method and the function '
                  'answer differently for the same call' % (meth, cd, wrapper, pd), mod.loc(fn))
    ctx.analysed['engine_option_defaults'] = m


@rule('T9', floor=4, title='tree_flatten_one_level reports the node as the registry entry describes it')
def t9(ctx):
    """The one-level result is (children, metadata, entries, unflatten_func) of the handler found for
    `type(tree)` in the caller's namespace, plus type = that type, kind and path_entry_type = the
    handler's.  Each piece is checked to come from where the engine takes it."""
    pkg = ctx.py()
    mod = pkg.mod('optree.ops')
    fn = mod.func('tree_flatten_one_level')
    tree = tree_param(fn) or _pos_params(fn)[0].arg
    env = {}
    nt = h = None
    for s_ in walk(fn):
        if isinstance(s_, ast.Assign) and len(s_.targets) == 1 and isinstance(s_.targets[0], ast.Name):
            if pmatch(s_.value, 'type(?t)', {'t': tree}) is not None:
                nt = s_.targets[0].id
            m = pmatch(s_.value, 'register_pytree_node.get(?nt, namespace=namespace)', {'nt': nt}) if nt else None
            if m is not None:
                h = s_.targets[0].id
    ctx.require(nt is not None and h is not None,
                'tree_flatten_one_level: `type(tree)` / `register_pytree_node.get(<type>, namespace=namespace)` not found')
    rets = [s for s in walk(fn) if isinstance(s, ast.Return) and isinstance(s.value, ast.Name)]
    ctx.require(len(rets) == 1, 'tree_flatten_one_level: result variable not recognised')
    out = rets[0].value.id
    ctor = [s_.value for s_ in walk(fn) if isinstance(s_, ast.Assign) and is_name(s_.targets[0], out) and
            isinstance(s_.value, ast.Call)]
    ctx.require(len(ctor) == 1, 'tree_flatten_one_level: constructor of the result not recognised')
    kws = {k.arg: k.value for k in ctor[0].keywords}
    # children / metadata / entries: the three results of handler.flatten_func(tree), by position
    flat = None
    for s_ in walk(fn):
        if isinstance(s_, ast.Assign) and isinstance(s_.targets[0], ast.Tuple) and len(s_.targets[0].elts) == 3 and \
                all(isinstance(e, ast.Name) for e in s_.targets[0].elts):
            flat = [e.id for e in s_.targets[0].elts]
    ctx.require(flat is not None, 'tree_flatten_one_level: unpacking of the flatten result not found')
    fcalls = [c for c in calls_under(fn) if pmatch(c, '?h.flatten_func(?t)', {'h': h, 't': tree}) is not None]
    want = {'children': flat[0], 'metadata': flat[1], 'entries': flat[2]}
    bad = []
    for k, v in want.items():
        if not (k in kws and is_name(kws[k], v)):
            bad.append('%s=%s' % (k, src(kws[k]) if k in kws else 'missing'))
    if not ('unflatten_func' in kws and pmatch(kws['unflatten_func'], '?h.unflatten_func', {'h': h}) is not None):
        bad.append('unflatten_func=%s' % (src(kws['unflatten_func']) if 'unflatten_func' in kws else 'missing'))
    if len(fcalls) != 1:
        bad.append('%d calls of the handler\'s flatten function on the tree' % len(fcalls))
    ctx.check('tree_flatten_one_level/result-fields', not bad,
              'children, metadata, entries are the three results of handler.flatten_func(tree), in this '
              'order, and unflatten_func is the handler\'s',
              'tree_flatten_one_level builds its result with %s' % '; '.join(bad), mod.loc(ctor[0]))
    attrs = {}
    for s_ in walk(fn):
        if isinstance(s_, ast.Assign) and len(s_.targets) == 1 and isinstance(s_.targets[0], ast.Attribute) and \
                is_name(s_.targets[0].value, out):
            attrs[s_.targets[0].attr] = s_.value
    for a_, pat, envp in (('type', '?nt', {'nt': nt}), ('kind', '?h.kind', {'h': h}),
                          ('path_entry_type', '?h.path_entry_type', {'h': h})):
        v = attrs.get(a_, kws.get(a_))
        ok = v is not None and pmatch(v, pat, envp) is not None
        ctx.check('tree_flatten_one_level/%s' % a_, ok,
                  'the result\'s %s is %s' % (a_, pat.replace('?nt', 'type(tree)').replace('?h', 'handler')),
                  'the result\'s %s is %s, the engine reports %s' % (
                      a_, src(v) if v is not None else 'never set',
                      pat.replace('?nt', 'type(tree)').replace('?h', 'the registry entry')), mod.loc(fn))


B1_SYNONYMS = {('namespace', 'registry_namespace'), ('obj', 'object'), ('cls', 'type'),
               ('collection', 'object')}


@rule('B1', floor=30, title='the keyword under which the engine accepts an argument is the parameter it reaches')
def b1(ctx):
    """pybind11 binds the i-th `py::arg("name")` to the i-th C++ parameter whatever it is called.
    Two adjacent parameters of the same type (`f_node` / `f_leaf`, `flatten_func` /
    `unflatten_func`) can be listed in the wrong order without a compile error or a type error at
    run time; every caller that passes them by keyword then reaches the other parameter.  For every
    binding with a known target the i-th keyword must name the i-th parameter (a short synonym
    table covers the places where the Python name differs on purpose)."""
    prog = ctx.cxx()
    bt = binding_table(prog)
    n = 0
    for (owner, name), b in sorted(bt.items()):
        tk = b.target_key
        tk = tuple(tk) if isinstance(tk, list) else tk
        t = prog.funcs.get(tk) if tk else None
        if t is None and b.lambda_key:
            lk = tuple(b.lambda_key) if isinstance(b.lambda_key, list) else b.lambda_key
            t = prog.funcs.get(lk)
        if t is None or not b.args:
            continue
        pn = [p[0] for p in t.params]
        an = [a for a, _ in b.args]
        # bound methods written as lambdas take the instance first
        if len(pn) == len(an) + 1:
            pn = pn[1:]
        if len(pn) != len(an):
            ctx.info('_C.%s.%s/arity' % (owner, name), 'binding lists %d arguments, target takes %d'
                     % (len(an), len(pn)), getattr(b.node, 'loc', None))
            continue
        n += 1
        bad = []
        for i, (a, p) in enumerate(zip(an, pn)):
            if p is None or a == p or (a, p) in B1_SYNONYMS:
                continue
            if a not in pn:
                # the keyword names no parameter of the target at all: the parameters were renamed
                # (their spelling is not an interface); nothing to compare
                continue
            bad.append('argument %d is accepted as `%s` but reaches parameter `%s` (`%s` is the name of '
                       'parameter %d)' % (i, a, p, a, pn.index(a)))
        ctx.check('_C.%s.%s/keywords' % (owner, name), not bad,
                  '_C %s.%s: keywords %s reach the parameters of the same name' % (owner, name, an),
                  '_C %s.%s: %s' % (owner, name, '; '.join(bad)), getattr(b.node, 'loc', None))
    ctx.analysed['bindings_with_keywords'] = n
