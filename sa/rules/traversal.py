"""Traversal-structure rules: K1 kind-exhaustive, K2 dispatch-consistent, K5 predicate-first,
K8 depth parity, K9 recursion bounded."""
from __future__ import annotations

import re

from ..engine import rule
from ..cfg import cfg_of, switch_arms, const_eval, unwrap_cases
from ..cxx_ir import CALL_KINDS
from .common import (ALL_KINDS, KIND_ENUM, short, inst, live_funcs, kind_switches, calls_in,
                     callee_func, enclosing_map, ancestors, thrown_type, member_path,
                     local_inits, assignments_to, strip_casts, unnegate)


# --------------------------------------------------------------------------------------------
# The functions whose switch over PyTreeKind dispatches work that every kind needs (produce /
# consume children, metadata, entries, text): a kind that reaches `default` there is silently
# mishandled.  Enumerated from the tree and confirmed by reading; a switch anywhere else is
# reported as information only.
K1_DISPATCHERS = {
    'PyTreeIter::NextImpl': 'pushes the children of every container kind',
    'PyTreeSpec::AccessorsImpl': 'typed path entries per kind',
    'PyTreeSpec::BroadcastToCommonSuffixImpl': 'kind x kind compatibility',
    'PyTreeSpec::Entries': 'entries per kind',
    'PyTreeSpec::Entry': 'entry per kind',
    'PyTreeSpec::FlattenIntoImpl': 'children and metadata per kind',
    'PyTreeSpec::FlattenIntoWithPathImpl': 'children, metadata and path entries per kind',
    'PyTreeSpec::FlattenUpTo': 'matching per kind',
    'PyTreeSpec::FromPickleable': 'metadata validation per kind',
    'PyTreeSpec::GetPathEntryType': 'entry class per kind',
    'PyTreeSpec::GetType': 'type per kind',
    'PyTreeSpec::HashValueImpl': 'hash contribution per kind',
    'PyTreeSpec::IsPrefix': 'matching per kind',
    'PyTreeSpec::MakeFromCollectionImpl': 'children and metadata per kind',
    'PyTreeSpec::MakeNode': 'rebuilds every container kind',
    'PyTreeSpec::NodeKindToString': 'name per kind',
    'PyTreeSpec::PathsImpl': 'path entries per kind',
    'PyTreeSpec::ToStringImpl': 'text per kind',
    'PyTreeSpec::UnflattenImpl': 'stack discipline per kind',
    'PyTreeSpec::WalkImpl': 'callback placement per kind',
}


@rule('K1', floor=20, title='every switch over PyTreeKind names all enumerators; default only throws InternalError')
def k1(ctx):
    prog = ctx.cxx()
    kinds = prog.enums.get(KIND_ENUM)
    ctx.require(kinds, 'enum optree::PyTreeKind not found')
    ctx.require(len(kinds) >= 11, 'PyTreeKind has %d enumerators, expected at least 11' % len(kinds))
    seen_src = set()
    found = set()
    for f in live_funcs(prog):
        for i, sw in enumerate(kind_switches(f)):
            arms, groups = switch_arms(sw)
            labels = set(arms) - {'default'}
            site = '%s#switch%d' % (short(f), i)
            missing = [k for k in kinds if k not in labels]
            seen_src.add((f.file, sw.line))
            owner = f if not f.is_lambda else prog.funcs.get(f.parent, f)
            if short(owner) not in K1_DISPATCHERS:
                # a switch that is not one of the reviewed per-kind dispatchers (e.g. one that
                # selects a few kinds and deliberately ignores the rest) is listed, not judged
                ctx.info(site + '/unreviewed', '%s: switch over PyTreeKind outside the reviewed '
                         'dispatcher table (names %d of %d kinds%s)'
                         % (inst(f), len(labels), len(kinds), ', has default' if 'default' in arms else ''),
                         sw.loc)
                continue
            found.add(short(owner))
            ctx.check(site + '/exhaustive', not missing,
                      '%s: switch names all %d PyTreeKind enumerators' % (inst(f), len(kinds)),
                      '%s: switch over PyTreeKind does not name %s (they fall to default)'
                      % (inst(f), missing), sw.loc, {'labels': sorted(labels)})
            if 'default' in arms:
                # statements that belong to the default arm only
                dstm = arms['default']
                own = _default_own(sw)
                bad = [s for s in own if not _only_internal_error(s)]
                ctx.check(site + '/default', not bad,
                          '%s: default arm only throws InternalError' % inst(f),
                          '%s: default arm does something other than throwing InternalError: %s'
                          % (inst(f), [b.text(3) for b in bad]), sw.loc)
    ctx.analysed['kind_switch_sites_source_level'] = len(seen_src)
    gone = sorted(set(K1_DISPATCHERS) - found)
    ctx.require(not gone, 'reviewed per-kind dispatchers without a PyTreeKind switch (renamed or '
                'restructured - re-review the table K1_DISPATCHERS): %s' % gone)


def _default_own(sw):
    body = sw.kids[-1]
    stmts = body.kids if body is not None and body.kind == 'CompoundStmt' else [body]
    own = []
    active = False
    for s in stmts:
        if s is None:
            continue
        if s.kind in ('CaseStmt', 'DefaultStmt'):
            labels, first = unwrap_cases(s)
            active = labels[-1] == 'default' or 'default' in labels
            if active and first is not None:
                own.append(first)
        elif active:
            own.append(s)
    return own


def _only_internal_error(s):
    if s is None:
        return True
    if s.kind == 'CompoundStmt':
        return all(_only_internal_error(k) for k in s.kids)
    if s.kind == 'CXXThrowExpr':
        return thrown_type(s) == 'InternalError'
    if s.kind in ('NullStmt', 'BreakStmt'):
        return s.kind == 'NullStmt'
    return False


# --------------------------------------------------------------------------------------------
FLAG_OF_PARAM = {
    # template parameter -> (flag, polarity of the flag that selects `true`)
    'NoneIsLeaf': ('NIL', True),
    'DictShouldBeSorted': ('DIO', False),
}


def _flag_of_expr(func, e, inits):
    """Canonical flag tested by a condition atom: ('NIL'|'DIO'|'DIO-own', polarity) or None."""
    pol = True
    while e is not None and e.kind == 'UnaryOperator' and e.op == '!':
        pol = not pol
        e = e.kids[0]
    if e is None:
        return None
    p = member_path(e)
    if p is not None:
        last = p.split('.')[-1]
        if re.search(r'none_is_leaf$', last):
            return ('NIL', pol)
        src = None
        if last in inits:
            src = inits[last]
        ass = assignments_to(func, last)
        cands = ([src] if src is not None else []) + ass
        for c in cands:
            fl = _dio_call(c)
            if fl:
                return (fl, pol)
        if re.search(r'is_dict_insertion_ordered$', last) and not cands:
            return ('DIO', pol)
        return None
    fl = _dio_call(e)
    if fl:
        return (fl, pol)
    return None


def _dio_call(e):
    if e is None:
        return None
    for c in [e] + list(e.walk()):
        if c.kind in CALL_KINDS and c.callee_name() == 'IsDictInsertionOrdered':
            args = [a for a in c.call_args() if a is not None and a.kind != 'CXXDefaultArgExpr']
            if len(args) >= 2:
                v = const_eval(args[1])
                if v is False:
                    return 'DIO-own'
            return 'DIO'
    return None


def _path_facts(func, call, parent, inits):
    """facts {flag: polarity} that hold on every path reaching `call`: for each branch condition
    that dominates the call, the edge (true/false) through which the call is exclusively reached.
    Decided on the CFG, so nesting, early return / break / continue are all the same."""
    facts = {}
    cfg = cfg_of(func)
    cn = cfg.cnode_of(call)
    if cn is None:
        return facts
    doms = cfg.dominators().get(cn, set())
    for d in doms:
        node = cfg.nodes[d]
        if node.kind != 'cond' or node.ast is None or d == cn:
            continue
        fl = _flag_of_expr(func, node.ast, inits)
        if not fl:
            continue
        t = [w for (w, lab) in cfg.succ[d] if lab is True]
        f = [w for (w, lab) in cfg.succ[d] if lab is False]
        via_t = cn in cfg.forward_reachable(t, {d})
        via_f = cn in cfg.forward_reachable(f, {d})
        if via_t != via_f:
            facts[fl[0]] = (fl[1] == via_t)
    return facts


def kind_facts(func, call):
    """set of (enumerator, equal?) facts about `<x>.kind` that hold on every path to `call`"""
    from ..descriptors import _kind_test
    out = set()
    cfg = cfg_of(func)
    cn = cfg.cnode_of(call)
    if cn is None:
        return out
    for d in cfg.dominators().get(cn, set()):
        node = cfg.nodes[d]
        if node.kind != 'cond' or node.ast is None or d == cn:
            continue
        kt = _kind_test(node.ast)
        if kt is None:
            continue
        t = [w for (w, lab) in cfg.succ[d] if lab is True]
        f = [w for (w, lab) in cfg.succ[d] if lab is False]
        via_t = cn in cfg.forward_reachable(t, {d})
        via_f = cn in cfg.forward_reachable(f, {d})
        if via_t != via_f:
            en, eq = kt
            out.add((en, eq == via_t))
    return out


def _contains(root, node):
    if root is node:
        return True
    for n in root.walk():
        if n is node:
            return True
    return False


def _conj_atoms(cond, branch):
    """atoms whose truth value is implied when `cond` evaluated to `branch`:
    (a && b)==True -> a, b true; (a || b)==False -> a,b false; otherwise the whole atom."""
    if cond is None:
        return []
    if cond.kind == 'BinaryOperator' and cond.op == '&&' and branch:
        return _conj_atoms(cond.kids[0], True) + _conj_atoms(cond.kids[1], True)
    if cond.kind == 'BinaryOperator' and cond.op == '||' and not branch:
        return _conj_atoms(cond.kids[0], False) + _conj_atoms(cond.kids[1], False)
    if cond.kind == 'UnaryOperator' and cond.op == '!':
        return _conj_atoms(cond.kids[0], not branch)
    return [(cond, branch)]


def _boolarg(v):
    return {'-1': True, '1': True, 'true': True, '0': False, 'false': False}.get(str(v))


@rule('K2', floor=20, title='template instantiation selected by a runtime flag matches the flag value')
def k2(ctx):
    prog = ctx.cxx()
    n_sites = 0
    for f in live_funcs(prog):
        if f.body is None:
            continue
        groups = {}
        # a lambda lives in the instantiation of the function it is written in
        owner = f
        seen_ = set()
        while owner is not None and owner.is_lambda and id(owner) not in seen_:
            seen_.add(id(owner))
            owner = prog.funcs.get(owner.parent)
        if owner is None:
            owner = f
        for c in calls_in(f.body):
            t = callee_func(prog, f, c)
            if t is None or not t.tparams:
                continue
            groups.setdefault(t.qualname, []).append((c, t))
            # K2b: inside an instantiation, same-named template parameters are forwarded
            for pn in t.tparams:
                if pn in owner.tparams and _boolarg(t.targ(pn)) is not None:
                    site = '%s->%s/%s' % (short(f), short(t), pn)
                    ctx.check(site, owner.targ(pn) == t.targ(pn),
                              '%s calls %s with its own %s' % (inst(f), inst(t), pn),
                              '%s (with %s=%s) calls %s: template argument %s not forwarded'
                              % (inst(f), pn, owner.targ(pn), inst(t), pn), c.loc)
        if not groups:
            continue
        parent = None
        inits = None
        for q, lst in groups.items():
            variants = {t.targs for _, t in lst}
            if parent is None:
                parent = enclosing_map(f.body)
                inits = local_inits(f)
            t0 = lst[0][1]
            for pi, pn in enumerate(t0.tparams):
                vals = {_boolarg(t.targs[pi]) if pi < len(t.targs) else None for _, t in lst}
                if None in vals or pn in owner.tparams:
                    continue        # not a flag parameter / forwarded from the caller's own (K2b)
                exp = FLAG_OF_PARAM.get(pn)
                if len(vals) < 2 and exp is None:
                    continue
                guarded = []
                unguarded = []
                for c, t in lst:
                    facts = _path_facts(f, c, parent, inits)
                    if exp and exp[0] in facts:
                        guarded.append((c, t, facts[exp[0]]))
                    else:
                        unguarded.append((c, t, facts))
                if exp is None:
                    ctx.fail('%s dispatches on template parameter %s of %s, which is not in the '
                             'flag table' % (inst(f), pn, q))
                if guarded and not unguarded:
                    for c, t, flagval in guarded:
                        want = (flagval == exp[1])
                        got = _boolarg(t.targs[pi])
                        site = '%s=>%s/%s=%s' % (short(f), q.split('::')[-1], pn,
                                                 'true' if got else 'false')
                        n_sites += 1
                        ctx.check(site, got == want,
                                  '%s: %s=%s chosen where flag %s is %s'
                                  % (inst(f), pn, got, exp[0], flagval),
                                  '%s: %s=%s chosen on the path where flag %s is %s (expected %s)'
                                  % (inst(f), pn, got, exp[0], flagval, want), c.loc,
                                  {'callee': inst(t)})
                elif unguarded and not guarded and len(vals) < 2:
                    # one variant only, under no test of the flag: nothing to compare it with here
                    # (a deliberate single-registry access); listed, not judged
                    site = '%s=>%s/%s/single' % (short(f), q.split('::')[-1], pn)
                    ctx.info(site, '%s uses only %s=%s of %s, not under a test of the flag'
                             % (inst(f), pn, sorted(vals)[0], q), unguarded[0][0].loc)
                elif unguarded and not guarded:
                    # both variants touched unconditionally (registry: NONE_IS_NODE and
                    # NONE_IS_LEAF tables are updated together)
                    got = sorted({_boolarg(t.targs[pi]) for _, t, _ in unguarded})
                    site = '%s=>%s/%s/both' % (short(f), q.split('::')[-1], pn)
                    n_sites += 1
                    ctx.check(site, got == [False, True],
                              '%s touches both %s variants of %s unconditionally'
                              % (inst(f), pn, q), None, unguarded[0][0].loc)
                    # and with the same arguments
                    texts = {tuple(a.text(4) for a in c.call_args() if a is not None)
                             for c, _, _ in unguarded}
                    ctx.check(site + '/same-args', len(texts) == 1,
                              '%s passes identical arguments to both variants' % inst(f),
                              '%s passes different arguments to the two variants: %s'
                              % (inst(f), sorted(texts)), unguarded[0][0].loc)
                else:
                    for c, t, facts in unguarded:
                        site = '%s=>%s/%s/unguarded' % (short(f), q.split('::')[-1], pn)
                        ctx.bad(site, '%s: call of %s is not guarded by flag %s while sibling '
                                'calls are' % (inst(f), inst(t), exp[0]), c.loc)
    ctx.analysed['k2_dispatch_calls'] = n_sites


# --------------------------------------------------------------------------------------------
def _is_optfn_type(t):
    return bool(t) and 'optional' in t and 'function' in t


def is_pred_call(n):
    """call of a user predicate held in an std::optional<py::function>"""
    if n.kind != 'CXXOperatorCallExpr' or n.callee_name() != 'operator()' or len(n.kids) < 2:
        return False
    obj = n.kids[1]
    if obj is None:
        return False
    if obj.kind == 'CXXOperatorCallExpr' and obj.callee_name() == 'operator*' and len(obj.kids) > 1:
        return _is_optfn_type(obj.kids[1].type if obj.kids[1] is not None else '')
    if obj.kind == 'CXXMemberCallExpr' and obj.callee_name() == 'value':
        b = obj.call_base()
        return _is_optfn_type(b.type if b is not None else '')
    return False


def has_pred_in_scope(f):
    for _, t, _ in f.params:
        if _is_optfn_type(t):
            return True
    for n in f.body.walk():
        if n.kind == 'MemberExpr' and _is_optfn_type(n.type):
            return True
    return False


@rule('K5', floor=5, title='user predicate decides leafness before the registry is consulted')
def k5(ctx):
    prog = ctx.cxx()
    for f in live_funcs(prog):
        if f.body is None or f.is_lambda:
            continue
        gk = [c for c in calls_in(f.body, {'GetKind'})
              if (callee_func(prog, f, c) is not None and
                  callee_func(prog, f, c).qualname.endswith('PyTreeTypeRegistry::GetKind'))]
        if not gk or not has_pred_in_scope(f):
            continue
        site = short(f)
        preds = [n for n in f.body.walk() if is_pred_call(n)]
        if not preds:
            ctx.bad(site + '/consulted', '%s classifies objects with GetKind but never calls the '
                    'leaf predicate it has in scope' % inst(f), f.loc)
            continue
        cfg = cfg_of(f)
        for g in gk:
            gn = cfg.cnode_of(g)
            ctx.require(gn is not None, 'GetKind call not in CFG of %s' % inst(f))
            ok = True
            why = []
            for p in preds:
                pn = cfg.cnode_of(p)
                ctx.require(pn is not None, 'predicate call not in CFG of %s' % inst(f))
                if cfg.nodes[pn].kind != 'cond':
                    # `const bool is_leaf = pred && call(...)`: the branch on that local stands
                    # for the branch on the predicate
                    a = cfg.nodes[pn].ast
                    var = None
                    if a is not None:
                        for v in a.find('VarDecl'):
                            if any(x is p for x in v.walk()):
                                var = v.name
                    conds = [cn for cn in cfg.nodes if cn.kind == 'cond' and cn.ast is not None and
                             member_path(cn.ast) == var] if var else []
                    if len(conds) == 1 and cfg.dominates(pn, conds[0].idx):
                        pn = conds[0].idx
                if cfg.nodes[pn].kind != 'cond':
                    # not a branch condition: the order can still be decided
                    if pn in cfg.forward_reachable([gn]) and pn != gn:
                        ok = False
                        why.append('the predicate is consulted after GetKind')
                        continue
                    ctx.fail('%s: the predicate result is not used as a branch condition (%s); '
                             'idiom not recognised' % (inst(f), cfg.nodes[pn]))
                # (a) GetKind not reachable from the predicate's true edge within one activation
                true_succ = [w for (w, lab) in cfg.succ[pn]
                             if lab is True and (pn, w) not in cfg.back_edges]
                reach_t = cfg.forward_reachable(true_succ, skip_nodes={pn})
                if gn in reach_t:
                    ok = False
                    why.append('GetKind is reached after the predicate returned true')
                # (b) predicate not reachable from GetKind within one activation
                reach_g = cfg.forward_reachable([gn])
                if pn in reach_g and pn != gn:
                    ok = False
                    why.append('the predicate is consulted after GetKind')
                # (c) GetKind reachable at all only through the predicate test or its
                # null-test: every forward path entry->GetKind passes the predicate node or
                # leaves the `optional` null-test on its false edge
                if not _guarded_by_pred(cfg, gn, pn, p):
                    ok = False
                    why.append('a path reaches GetKind without testing the predicate')
            ctx.check(site + '/predicate-first', ok,
                      '%s: predicate (when given) is evaluated first and a true result never '
                      'reaches GetKind' % inst(f),
                      '%s: %s' % (inst(f), '; '.join(why)), g.loc)


def _guarded_by_pred(cfg, gn, pn, pred_call):
    """Every forward path from entry to gn passes pn, or passes the false edge of a null test of
    the same optional (`leaf_predicate && ...`)."""
    # cond nodes testing the optional itself: `operator bool` on an optional<function>
    nulltests = []
    for cn in cfg.nodes:
        if cn.kind == 'cond' and cn.ast is not None:
            a = cn.ast
            if a.kind == 'CXXMemberCallExpr' and a.callee_name() in ('operator bool', 'has_value'):
                b = a.call_base()
                if b is not None and _is_optfn_type(b.type):
                    nulltests.append(cn.idx)
    # remove pn and the false edges of null tests; gn must then be unreachable
    be = cfg.back_edges

    def skip(v, w, lab):
        if (v, w) in be:
            return True
        if v in nulltests and lab is False:
            return True
        return False
    reach = cfg.reachable_from([cfg.entry.idx], skip, {pn})
    return gn not in reach


# --------------------------------------------------------------------------------------------
def _depth_checks_own(f):
    """comparisons against MAX_RECURSION_DEPTH in f's own body: list of (node, op, lhs)"""
    out = []
    for n in f.body.walk():
        if n.kind == 'BinaryOperator' and n.op in ('>', '>=', '<', '<=', '==', '!='):
            l, r = n.kids
            lp, rp = member_path(l), member_path(r)
            if rp == 'MAX_RECURSION_DEPTH':
                out.append((n, n.op, l))
            elif lp == 'MAX_RECURSION_DEPTH':
                flip = {'>': '<', '<': '>', '>=': '<=', '<=': '>=', '==': '==', '!=': '!='}
                out.append((n, flip[n.op], r))
    return out


_PROG = [None]


def _depth_checks(f):
    """depth checks of f: its own comparisons, or a call of a small non-recursive helper that
    compares one of its parameters with MAX_RECURSION_DEPTH (the call node then stands for the
    check and the argument for the compared value)"""
    own = _depth_checks_own(f)
    if own:
        return own
    prog = _PROG[0]
    out = []
    if prog is None or f.body is None:
        return out
    for c in calls_in(f.body):
        t = callee_func(prog, f, c)
        if t is None or t.body is None or t.qualname == f.qualname or t.is_lambda:
            continue
        inner = _depth_checks_own(t)
        if not inner:
            continue
        n, op, lhs = inner[0]
        pn = member_path(lhs)
        pnames = [p[0] for p in t.params]
        if pn in pnames:
            args = c.call_args()
            i = pnames.index(pn)
            if i < len(args) and args[i] is not None:
                out.append((c, op, args[i]))
    return out


def _check_raises(prog, f, node, parent):
    """the failing edge of the depth check raises RecursionError"""
    if node.kind in CALL_KINDS:
        t = callee_func(prog, f, node)
        if t is not None and t.body is not None:
            inner = _depth_checks_own(t)
            if inner:
                tp = enclosing_map(t.body)
                ifs = [a for a in ancestors(inner[0][0], tp) if a.kind == 'IfStmt']
                return bool(ifs) and _raises_recursion_error(ifs[0].kids[1] if len(ifs[0].kids) > 1 else None)
        return False
    ifs = [a for a in ancestors(node, parent) if a.kind == 'IfStmt']
    if ifs:
        kids = list(ifs[0].kids)
        return _raises_recursion_error(kids[1] if len(kids) > 1 else None)
    return False


def _raises_recursion_error(stmt):
    if stmt is None:
        return False
    seen_set = False
    seen_throw = False
    for n in stmt.walk():
        if n.kind == 'CallExpr' and n.callee_name() in ('PyErr_SetString', 'PyErr_Format'):
            a = n.call_args()
            if a and member_path(a[0]) == 'PyExc_RecursionError':
                seen_set = True
        if n.kind == 'CXXThrowExpr' and thrown_type(n) == 'error_already_set':
            seen_throw = True
    return seen_set and seen_throw


def depth_descriptor(ctx, prog, f):
    """(op, normalised lhs, raises RecursionError, placement) for the depth check of f"""
    checks = _depth_checks(f)
    if not checks:
        return None
    n, op, lhs = checks[0]
    parent = enclosing_map(f.body)
    raises = _check_raises(prog, f, n, parent)
    cfg = cfg_of(f)
    cn = cfg.cnode_of(n)
    # placement: the check dominates every classification (GetKind) and predicate call
    doms = True
    for c in calls_in(f.body, {'GetKind'}):
        g = cfg.cnode_of(c)
        if g is not None and not cfg.dominates(cn, g):
            doms = False
    for p in f.body.walk():
        if is_pred_call(p):
            g = cfg.cnode_of(p)
            if g is not None and not cfg.dominates(cn, g):
                doms = False
    return {'op': op, 'lhs': member_path(lhs) or lhs.text(3), 'raises_RecursionError': raises,
            'before_classification': doms, 'node': n}


@rule('K8', floor=3, title='the forward traversals agree on the depth limit check')
def k8(ctx):
    prog = ctx.cxx()
    _PROG[0] = prog
    descs = {}
    for name in ('PyTreeSpec::FlattenIntoImpl', 'PyTreeSpec::FlattenIntoWithPathImpl',
                 'PyTreeIter::NextImpl'):
        fs = [f for f in prog.by_suffix(name) if not f.dependent]
        ctx.require(fs, 'no instantiation of %s found' % name)
        for f in fs:
            d = depth_descriptor(ctx, prog, f)
            site = short(f) + '/depth-check'
            if d is None:
                ctx.bad(site, '%s has no comparison against MAX_RECURSION_DEPTH' % inst(f), f.loc)
                continue
            node = d.pop('node')
            d['step'] = _depth_step(prog, f)
            d['initial'] = _depth_initial(prog, f)
            descs.setdefault(name, []).append((f, d, node))
    ref = {'op': '>', 'raises_RecursionError': True, 'before_classification': True, 'step': '+1',
           'initial': '0'}
    for name, lst in descs.items():
        for f, d, node in lst:
            site = short(f) + '/depth-check'
            diffs = {k: (d.get(k), v) for k, v in ref.items() if d.get(k) != v}
            ctx.check(site, not diffs,
                      '%s: depth starts at 0, +1 per level, raises RecursionError when depth > '
                      'MAX_RECURSION_DEPTH, checked before the node is classified' % inst(f),
                      '%s: depth discipline differs from its siblings: %s (found, expected)'
                      % (inst(f), diffs), node.loc, d)


    # every other recursion of the engine that carries a depth (paths, accessors, broadcasting):
    # the same limit test - a treespec that could be built (depth <= limit) can be walked by them
    others = 0
    for f in live_funcs(prog):
        if f.body is None or f.is_lambda or f.dependent or \
                any(f.qualname.endswith(n_) for n_ in descs):
            continue
        chk = _depth_checks(f)
        if not chk:
            continue
        # a recursion: the function (or one of its lambdas) calls the function again; a helper
        # that only holds the comparison is judged where it is used
        fam_ = [f] + list(prog.lambdas_of(f))
        if not any(callee_func(prog, g_, c_) is not None and callee_func(prog, g_, c_).qualname == f.qualname
                   for g_ in fam_ if g_.body is not None for c_ in calls_in(g_.body)):
            continue
        others += 1
        n_, op_, lhs_ = chk[0]
        parent_ = enclosing_map(f.body)
        raises_ = _check_raises(prog, f, n_, parent_)
        step_ = _depth_step(prog, f)
        diffs_ = {k: v for k, v in (('op', op_), ('raises_RecursionError', raises_), ('step', step_))
                  if v != ref[k]}
        ctx.check(short(f) + '/depth-check', not diffs_,
                  '%s: raises RecursionError when depth > MAX_RECURSION_DEPTH, +1 per level' % inst(f),
                  '%s: depth discipline differs from the traversals that build treespecs: %s - a '
                  'treespec at the limit is rejected (or one beyond it is walked)' % (inst(f), diffs_),
                  n_.loc)
    ctx.analysed['other_depth_checked_recursions'] = others


def _depth_name(f):
    """name of the variable the depth check of f compares with MAX_RECURSION_DEPTH"""
    chk = _depth_checks(f)
    if not chk:
        return None
    return member_path(strip_casts(chk[0][2]))


def _depth_step(prog, f):
    """how the depth handed to children relates to the checked depth: '+1' or other text"""
    # the depth variable is whatever the depth check compares with the limit
    dn = _depth_name(f)
    # recursive form: some call in f or its lambdas passes `depth + 1` to f's own template
    fam = [f] + prog.lambdas_of(f)
    seen_plus_one = False
    for g in fam:
        for c in calls_in(g.body):
            t = callee_func(prog, g, c)
            if t is not None and t.qualname == f.qualname:
                pnames = [p[0] for p in t.params]
                if dn in pnames:
                    a = c.call_args()[pnames.index(dn)]
                    if a is not None and a.kind == 'BinaryOperator' and a.op == '+' and \
                            member_path(a.kids[0]) == dn and const_eval(a.kids[1]) == 1:
                        seen_plus_one = True      # ... and every other recursive call must agree
                        continue
                    return a.text(3) if a is not None else '?'
    if seen_plus_one:
        return '+1'
    # agenda form: `++depth` (or depth + 1) once, dominated by the check, and children are
    # pushed with `depth`
    incs = [n for n in f.body.walk() if n.kind == 'UnaryOperator' and n.op == '++' and
            member_path(n.kids[0]) == dn]
    if len(incs) == 1:
        cfg = cfg_of(f)
        chk = _depth_checks(f)
        if chk and cfg.dominates(cfg.cnode_of(chk[0][0]), cfg.cnode_of(incs[0])):
            # every emplace_back on the agenda after the increment passes `depth`
            pushes = [c for c in calls_in(f.body, {'emplace_back'})
                      if (member_path(c.call_base()) or '').endswith('m_agenda')]
            if pushes and all(len(c.call_args()) >= 2 and member_path(c.call_args()[1]) == dn
                              and cfg.dominates(cfg.cnode_of(incs[0]), cfg.cnode_of(c))
                              for c in pushes):
                return '+1'
            return 'agenda pushes do not all carry the incremented depth'
    return 'unrecognised'


def _depth_initial(prog, f):
    """depth given to the root: literal at the call sites of f from outside its own family, or
    the literal in the iterator's agenda initialiser"""
    vals = set()
    dn = _depth_name(f)
    for g in live_funcs(prog):
        if g.qualname == f.qualname or (g.is_lambda and g.parent == f.key):
            continue
        if g.body is None:
            continue
        for c in calls_in(g.body):
            t = callee_func(prog, g, c)
            if t is not None and t.key == f.key:
                pnames = [p[0] for p in t.params]
                if dn in pnames:
                    a = c.call_args()[pnames.index(dn)]
                    v = const_eval(a)
                    vals.add(str(v) if v is not None else a.text(3))
    if vals:
        return vals.pop() if len(vals) == 1 else 'inconsistent:%s' % sorted(vals)
    # iterator: constructor initialiser of m_agenda
    if f.record:
        for g in live_funcs(prog):
            if g.record == f.record and g.name == f.record.split('::')[-1]:
                for i in g.inits:
                    if i.name == 'm_agenda':
                        lits = [n for n in i.walk() if n.kind == 'IntegerLiteral']
                        if len(lits) == 1:
                            return str(lits[0].value)
                        return 'agenda initialiser: %s' % i.text(5)
    return 'unrecognised'


# --------------------------------------------------------------------------------------------
@rule('K9', floor=3, title='every recursive cycle of the engine call graph is bounded by MAX_RECURSION_DEPTH')
def k9(ctx):
    prog = ctx.cxx()
    _PROG[0] = prog
    sccs = prog.sccs()
    ctx.require(sccs, 'no recursive cycle found in the engine call graph (flatten is recursive)')
    seen = set()
    for comp in sccs:
        fs = [prog.funcs[k] for k in comp]
        if any(f.dependent for f in fs):
            continue
        roots = sorted({short(f if not f.is_lambda else prog.funcs.get(f.parent, f)) for f in fs})
        site = '+'.join(sorted(set(r.split('::(lambda)')[0] for r in roots)))
        # the check must dominate every call that stays inside the cycle
        bounded = False
        detail = []
        for f in fs:
            chk = _depth_checks(f)
            if not chk:
                continue
            cfg = cfg_of(f)
            cn = cfg.cnode_of(chk[0][0])
            # calls from f into the component (directly or through its lambdas)
            inner = []
            for c in calls_in(f.body):
                t = callee_func(prog, f, c)
                if t is not None and t.key in comp:
                    inner.append(c)
            if inner and all(cfg.dominates(cn, cfg.cnode_of(c)) for c in inner):
                bounded = True
            elif not inner:
                # recursion happens through a lambda defined in f: the lambda expression itself
                # must be dominated by the check
                lams = [n for n in f.body.walk() if n.kind == 'LambdaExpr' and
                        (n.x or {}).get('lambda_key') in comp]
                if lams and all(cfg.dominates(cn, cfg.cnode_of(l)) for l in lams):
                    bounded = True
            detail.append('%s compares %s %s MAX_RECURSION_DEPTH' % (inst(f), chk[0][2].text(3),
                                                                     chk[0][1]))
        key = site
        if (key, tuple(sorted(f.targs for f in fs))) in seen:
            continue
        seen.add((key, tuple(sorted(f.targs for f in fs))))
        ctx.check(key + '/bounded', bounded,
                  'recursive cycle {%s} carries a depth check that dominates the recursive call: %s'
                  % (', '.join(sorted(inst(f) for f in fs)), '; '.join(detail)),
                  'recursive cycle {%s} has no comparison against MAX_RECURSION_DEPTH on the way '
                  'to its recursive call: native recursion depth is bounded only by the size of '
                  'the treespec' % ', '.join(sorted(inst(f) for f in fs)),
                  fs[0].loc)


@rule('AL1', floor=4, title='all_leaves answers yes only after the last element and no at the first element that is not a leaf')
def al1(ctx):
    """`all_leaves(xs)` is the conjunction over the elements: inside the loop over the iterable
    the only answer is `false`, given exactly on the outcome "GetKind says this is not a leaf"; an
    element the predicate accepts goes on to the next element (it is not an answer for the whole
    iterable); `true` is returned after the loop.  `is_leaf(x)` is the same decision for one object:
    predicate accepted -> true, otherwise GetKind == Leaf."""
    prog = ctx.cxx()
    from ..cfg import const_eval as ce
    from ..cxx_ir import LOOP_KINDS as _LK
    fs = [f for f in prog.by_suffix('AllLeavesImpl') if not f.dependent and f.body is not None]
    ctx.require(len(fs) == 2, 'AllLeavesImpl: %d instantiations' % len(fs))
    for f in fs:
        cfg = cfg_of(f)
        parent = enclosing_map(f.body)
        loops = [n for n in f.body.walk() if n.kind in _LK]
        ctx.require(len(loops) == 1, '%s: %d loops' % (inst(f), len(loops)))
        rets = [r for r in f.body.walk() if r.kind == 'ReturnStmt' and r.kids]
        inside = [r for r in rets if any(a is loops[0] for a in ancestors(r, parent))]
        outside = [r for r in rets if r not in inside]
        bad_in = [r for r in inside if ce(r.kids[0]) is not False]
        ctx.check('%s/no-early-yes' % short(f), inside and not bad_in,
                  '%s: inside the loop the only answer is `false`' % inst(f),
                  '%s returns `%s` from inside the loop over the elements: one element answers for all of '
                  'them (an element the predicate accepts, followed by a non-leaf, gives True)'
                  % (inst(f), bad_in[0].kids[0].text(3) if bad_in else 'nothing'),
                  bad_in[0].loc if bad_in else f.loc)
        ctx.check('%s/yes-after-the-loop' % short(f), len(outside) == 1 and ce(outside[0].kids[0]) is True,
                  '%s: `true` is returned after the last element' % inst(f),
                  '%s does not end with `return true` after the loop' % inst(f), f.loc)
        # the negative answer is given on the "not a leaf" outcome of the GetKind comparison
        gk = [c for c in calls_in(f.body, {'GetKind'})]
        ok = False
        # the comparison may have been given a name first (`const bool not_leaf = GetKind(...) != Leaf;
        # if (not_leaf)`): the branch on that local stands for the branch on the comparison
        named = {}
        for v in f.body.walk():
            if v.kind == 'VarDecl' and v.name and v.kids and gk and any(x is gk[0] for x in v.kids[-1].walk()):
                named[v.name] = strip_casts(v.kids[-1])
        for cn in cfg.nodes:
            if not gk or cn.kind != 'cond' or cn.ast is None:
                continue
            a, pos = unnegate(cn.ast)
            if a is not None and member_path(a) in named:
                a2, pos2 = unnegate(named[member_path(a)])
                a, pos = a2, (pos == pos2)
            elif not any(x is gk[0] for x in cn.ast.walk()):
                continue
            if a is None or a.kind != 'BinaryOperator' or a.op not in ('==', '!=') or 'Leaf' not in a.text(4):
                continue
            not_leaf = (a.op == '!=') == pos
            yes = cfg.forward_reachable([w for (w, lab) in cfg.succ[cn.idx]
                                         if lab is not_leaf and (cn.idx, w) not in cfg.back_edges])
            no = cfg.forward_reachable([w for (w, lab) in cfg.succ[cn.idx]
                                        if lab is (not not_leaf) and (cn.idx, w) not in cfg.back_edges])
            rn = {cfg.cnode_of(r) for r in inside}
            ok = bool(rn & yes) and not (rn & no)
        ctx.check('%s/no-on-a-non-leaf' % short(f), ok,
                  '%s: `false` is returned exactly when GetKind says the element is not a leaf' % inst(f),
                  '%s: the negative answer is not tied to the outcome "kind != Leaf" of the classification'
                  % inst(f), f.loc)
    gs = [f for f in prog.by_suffix('IsLeafImpl') if not f.dependent and f.body is not None]
    ctx.require(len(gs) == 2, 'IsLeafImpl: %d instantiations' % len(gs))
    for f in gs:
        rets = [r for r in f.body.walk() if r.kind == 'ReturnStmt' and r.kids]
        consts = [ce(r.kids[0]) for r in rets]
        cmp_ = [r for r in rets if ce(r.kids[0]) is None]
        ok = consts.count(True) == 1 and consts.count(False) == 0 and len(cmp_) == 1
        if ok:
            a, pos = unnegate(cmp_[0].kids[0])
            ok = a is not None and a.kind == 'BinaryOperator' and a.op in ('==', '!=') and \
                ((a.op == '==') == pos) and 'GetKind' in a.text(6) and 'Leaf' in a.text(6)
        ctx.check('%s/decision' % short(f), ok,
                  '%s: predicate accepted -> true, otherwise GetKind(...) == Leaf' % inst(f),
                  '%s does not answer `true` for an accepted object and `GetKind(...) == Leaf` otherwise' % inst(f),
                  f.loc)
