"""Launcher: ./check <id> --tier quick|thorough [--replay file]"""
from __future__ import annotations

import argparse
import os
import sys

sys.setrecursionlimit(100000)


def main(argv=None):
    ap = argparse.ArgumentParser()
    ap.add_argument('pid', nargs='?')
    ap.add_argument('--tier', default=os.environ.get('VERIF_TIER') or 'quick',
                    choices=['quick', 'thorough'])
    ap.add_argument('--replay')
    ap.add_argument('--list', action='store_true')
    ap.add_argument('--rules', help='comma separated rule ids (debugging)')
    args = ap.parse_args(argv)
    try:
        from . import properties, engine
        from . import rules  # noqa: F401  (registers everything)
        from .rules import load_all
        load_all()
    except Exception:
        import traceback
        print('ANALYSIS-ERROR cannot load the checker:')
        traceback.print_exc(file=sys.stdout)
        return 2
    if args.list:
        for pid, p in sorted(properties.PROPERTIES.items()):
            print(pid, ','.join(p['rules']))
        return 0
    p = properties.PROPERTIES.get(args.pid)
    if p is None:
        print('ANALYSIS-ERROR unknown property %r' % args.pid)
        return 2
    rules_ = list(p['rules'])
    configs = ['py312']
    if args.tier == 'thorough':
        rules_ += [r for r in p['thorough_rules'] if r not in rules_]
        configs = properties.THOROUGH_CONFIGS
    if args.rules:
        rules_ = args.rules.split(',')
    return engine.run_property(args.pid, rules_, args.tier, p['explanation'], p['declined'],
                               configs=configs, replay=args.replay)


if __name__ == '__main__':
    rc = main()
    sys.stdout.flush()
    os._exit(rc)
