"""Control-flow graph over the C++ IR (one per function), with short-circuit decomposition of
conditions, labelled edges, dominators, post-dominators and reachability queries.

Atoms are full expressions / declarations; conditions are split at `&&`, `||`, `!` so that
"reached only when X was false" is an edge-label query.  Exceptional edges exist only for
explicit `throw` and for atoms inside a `try` block (to its handlers); implicit exceptions of
calls outside `try` leave the function and do not matter for dominance.
"""
from __future__ import annotations

from .cxx_ir import Node, LOOP_KINDS


class CfgError(Exception):
    pass


class CNode:
    __slots__ = ('idx', 'kind', 'ast', 'label')

    def __init__(self, idx, kind, ast=None, label=None):
        self.idx = idx
        self.kind = kind      # entry | exit | throwexit | atom | cond | return | throw | join
        self.ast = ast
        self.label = label

    def __repr__(self):
        return '<C%d %s %s>' % (self.idx, self.kind,
                                self.ast.text(3) if self.ast is not None else (self.label or ''))


def const_eval(n):
    """Value of a compile-time-constant condition (after template substitution), else None."""
    if n is None:
        return None
    k = n.kind
    if k == 'CXXBoolLiteralExpr':
        return bool(n.value)
    if k == 'IntegerLiteral':
        try:
            return int(n.value)
        except (TypeError, ValueError):
            return None
    if k == 'SubstNonTypeTemplateParmExpr':
        for c in reversed(n.kids):
            if c is not None and c.kind != 'NonTypeTemplateParmDecl':
                return const_eval(c)
        return None
    if k == 'UnaryOperator' and n.op == '!':
        v = const_eval(n.kids[0])
        return None if v is None else (not v)
    if k == 'BinaryOperator' and n.op in ('&&', '||'):
        a = const_eval(n.kids[0])
        b = const_eval(n.kids[1])
        if n.op == '&&':
            if a is False or b is False:
                return False
            if a is True and b is True:
                return True
        else:
            if a is True or b is True:
                return True
            if a is False and b is False:
                return False
        return None
    return None


def template_param_of(n):
    """Name of the template parameter a substituted constant came from, else None."""
    if n is None:
        return None
    if n.kind == 'SubstNonTypeTemplateParmExpr':
        for c in n.kids:
            if c is not None and c.kind == 'NonTypeTemplateParmDecl':
                return c.name
    for c in n.kids:
        r = template_param_of(c)
        if r:
            return r
    return None


def unwrap_cases(case):
    """CaseStmt/DefaultStmt chain -> (labels, first statement)."""
    labels = []
    n = case
    while n is not None and n.kind in ('CaseStmt', 'DefaultStmt'):
        if n.kind == 'CaseStmt':
            v = n.kids[0]
            lab = None
            if v is not None:
                if v.kind == 'DeclRefExpr' and v.ref:
                    lab = v.ref.get('name')
                else:
                    lab = v.text(3)
            labels.append(lab)
            n = n.kids[-1] if len(n.kids) > 1 else None
        else:
            labels.append('default')
            n = n.kids[-1] if n.kids else None
    return labels, n


def switch_arms(sw):
    """Map label -> list of statements of that arm (fall-through groups share the list).
    Returns (arms: dict label -> [stmts], order: list of label groups)."""
    body = sw.kids[-1]
    arms = {}
    groups = []
    cur = None
    stmts = body.kids if body is not None and body.kind == 'CompoundStmt' else [body]
    for s in stmts:
        if s is None:
            continue
        if s.kind in ('CaseStmt', 'DefaultStmt'):
            labels, first = unwrap_cases(s)
            # fall-through from a previous group that did not end in break/return/throw
            if cur is not None and not _ends(cur[1]):
                labels = cur[0] + labels if False else labels
                # previous group falls into this one: it also executes these statements
                cur[2].append(labels)
            cur = (labels, [], [])
            groups.append(cur)
            if first is not None:
                cur[1].append(first)
        elif cur is not None:
            cur[1].append(s)
    # resolve fall-through: statements of group i are followed by statements of group i+1 when
    # group i does not end
    for i, (labels, ss, _) in enumerate(groups):
        full = list(ss)
        j = i
        while not _ends(groups[j][1]) and j + 1 < len(groups):
            j += 1
            full.extend(groups[j][1])
        for lab in labels:
            arms[lab] = full
    return arms, [g[0] for g in groups]


def _ends(stmts):
    if not stmts:
        return False
    last = stmts[-1]
    while last is not None and last.kind == 'CompoundStmt' and last.kids:
        last = last.kids[-1]
    if last is None:
        return False
    if last.kind in ('BreakStmt', 'ReturnStmt', 'ContinueStmt', 'CXXThrowExpr'):
        return True
    if last.kind == 'CallExpr' and last.callee_name() in ('rethrow_exception', 'abort',
                                                           'terminate'):
        return True
    return False


NORETURN = {'rethrow_exception', 'abort', 'terminate', 'pybind11_fail', 'unreachable'}


class CFG:
    def __init__(self, func):
        self.func = func
        self.nodes = []
        self.succ = {}
        self.pred = {}
        self.entry = self._new('entry')
        self.exit = self._new('exit')
        self.throwexit = self._new('throwexit')
        self._breaks = []
        self._continues = []
        self.back_edges = set()   # (src, dst) edges that close a loop
        self._handlers = []   # stack of lists of handler-entry node idx
        self.ast_to_cnode = {}
        outs = [(self.entry.idx, None)]
        for init in func.inits:
            a = self._atom(init, outs)
            outs = [(a.idx, None)]
        if func.body is not None:
            outs = self._stmt(func.body, outs)
        for o in outs:
            self._edge(o, self.exit.idx)
        self._index_ast()
        self._dom = None
        self._pdom = None

    # ---- construction ------------------------------------------------------------------
    def _new(self, kind, ast=None, label=None):
        n = CNode(len(self.nodes), kind, ast, label)
        self.nodes.append(n)
        self.succ[n.idx] = []
        self.pred[n.idx] = []
        return n

    def _edge(self, frm, to):
        src, lab = frm
        self.succ[src].append((to, lab))
        self.pred[to].append((src, lab))

    def _join(self, outs, kind='join', ast=None, label=None):
        n = self._new(kind, ast, label)
        for o in outs:
            self._edge(o, n.idx)
        return n

    def _atom(self, ast, outs, kind='atom'):
        n = self._join(outs, kind, ast)
        if self._handlers:
            for h in self._handlers[-1]:
                self._edge((n.idx, 'exc'), h)
        return n

    def _is_noreturn_call(self, ast):
        if ast is None:
            return False
        if ast.kind == 'CallExpr' and ast.callee_name() in NORETURN:
            return True
        return False

    def _throw(self, ast, outs):
        n = self._join(outs, 'throw', ast)
        if self._handlers:
            for h in self._handlers[-1]:
                self._edge((n.idx, 'exc'), h)
            if not self._catch_all[-1]:
                self._edge((n.idx, 'exc'), self.throwexit.idx)
        else:
            self._edge((n.idx, 'exc'), self.throwexit.idx)
        return n

    _catch_all = None

    def _cond(self, e, outs):
        """returns (true_outs, false_outs)"""
        if not outs:
            return [], []
        v = const_eval(e)
        if v is True:
            return list(outs), []
        if v is False:
            return [], list(outs)
        if e is not None and e.kind == 'BinaryOperator' and e.op == '&&':
            t1, f1 = self._cond(e.kids[0], outs)
            t2, f2 = self._cond(e.kids[1], t1)
            return t2, f1 + f2
        if e is not None and e.kind == 'BinaryOperator' and e.op == '||':
            t1, f1 = self._cond(e.kids[0], outs)
            t2, f2 = self._cond(e.kids[1], f1)
            return t1 + t2, f2
        if e is not None and e.kind == 'UnaryOperator' and e.op == '!':
            t, f = self._cond(e.kids[0], outs)
            return f, t
        n = self._atom(e, outs, 'cond')
        return [(n.idx, True)], [(n.idx, False)]

    def _stmt(self, s, outs):
        if s is None:
            return outs
        k = s.kind
        if k == 'CompoundStmt':
            for c in s.kids:
                outs = self._stmt(c, outs)
            return outs
        if k == 'NullStmt':
            return outs
        if k == 'DeclStmt' and s.kids and all(
                c is not None and c.kind == 'VarDecl' and (c.x or {}).get('cond_alias') for c in s.kids):
            return outs      # a named test the IR has put back into the condition it stood for
        if k == 'IfStmt':
            kids = list(s.kids)
            x = s.x or {}
            if x.get('hasInit'):
                outs = self._stmt(kids.pop(0), outs)
            if x.get('hasVar'):
                a = self._atom(kids.pop(0), outs)
                outs = [(a.idx, None)]
            cond = kids[0]
            then = kids[1] if len(kids) > 1 else None
            els = kids[2] if len(kids) > 2 else None
            t, f = self._cond(cond, outs)
            to = self._stmt(then, t) if t else []
            fo = self._stmt(els, f) if f else []
            return to + fo
        if k == 'ForStmt':
            init, condvar, cond, inc, body = (s.kids + [None] * 5)[:5]
            outs = self._stmt(init, outs)
            head = self._join(outs, 'join', None, 'for-head')
            if cond is not None:
                t, f = self._cond(cond, [(head.idx, None)])
            else:
                t, f = [(head.idx, None)], []
            self._breaks.append([])
            self._continues.append([])
            bo = self._stmt(body, t)
            conts = self._continues.pop()
            brks = self._breaks.pop()
            io = self._stmt(inc, bo + conts) if inc is not None else bo + conts
            for o in io:
                self._edge(o, head.idx)
                self.back_edges.add((o[0], head.idx))
            return f + brks
        if k == 'WhileStmt':
            kids = list(s.kids)
            if (s.x or {}).get('hasVar'):
                kids.pop(0)
            cond, body = kids[0], kids[1] if len(kids) > 1 else None
            head = self._join(outs, 'join', None, 'while-head')
            t, f = self._cond(cond, [(head.idx, None)])
            self._breaks.append([])
            self._continues.append([])
            bo = self._stmt(body, t)
            conts = self._continues.pop()
            brks = self._breaks.pop()
            for o in bo + conts:
                self._edge(o, head.idx)
                self.back_edges.add((o[0], head.idx))
            return f + brks
        if k == 'DoStmt':
            body, cond = s.kids[0], s.kids[1]
            head = self._join(outs, 'join', None, 'do-head')
            self._breaks.append([])
            self._continues.append([])
            bo = self._stmt(body, [(head.idx, None)])
            conts = self._continues.pop()
            brks = self._breaks.pop()
            t, f = self._cond(cond, bo + conts)
            for o in t:
                self._edge(o, head.idx)
                self.back_edges.add((o[0], head.idx))
            return f + brks
        if k == 'CXXForRangeStmt':
            kids = (s.kids + [None] * 8)[:8]
            init, rng, beg, end, cond, inc, loopvar, body = kids
            outs = self._stmt(init, outs)
            hdr = Node('CompoundStmt')          # range expression, begin() and end()
            hdr.kids = [x for x in (rng, beg, end) if x is not None]
            if rng is not None:
                hdr.file, hdr.line = rng.file, rng.line
            a = self._atom(hdr, outs)
            a.label = 'range-init'
            head = self._join([(a.idx, None)], 'cond', cond, 'range-head')
            self._breaks.append([])
            self._continues.append([])
            lv = self._atom(loopvar, [(head.idx, True)])
            bo = self._stmt(body, [(lv.idx, None)])
            conts = self._continues.pop()
            brks = self._breaks.pop()
            for o in bo + conts:
                self._edge(o, head.idx)
                self.back_edges.add((o[0], head.idx))
            return [(head.idx, False)] + brks
        if k == 'SwitchStmt':
            kids = list(s.kids)
            x = s.x or {}
            if x.get('hasInit'):
                outs = self._stmt(kids.pop(0), outs)
            if x.get('hasVar'):
                a = self._atom(kids.pop(0), outs)
                outs = [(a.idx, None)]
            cond = kids[0]
            body = kids[-1]
            c = self._atom(cond, outs, 'cond')
            c.label = 'switch'
            self._breaks.append([])
            cur = []
            has_default = False
            stmts = body.kids if body is not None and body.kind == 'CompoundStmt' else [body]
            for st in stmts:
                if st is None:
                    continue
                if st.kind in ('CaseStmt', 'DefaultStmt'):
                    labels, first = unwrap_cases(st)
                    if 'default' in labels:
                        has_default = True
                    j = self._join(cur + [(c.idx, 'case:%s' % l) for l in labels], 'join',
                                   None, 'case ' + ','.join(map(str, labels)))
                    cur = self._stmt(first, [(j.idx, None)])
                else:
                    cur = self._stmt(st, cur)
            brks = self._breaks.pop()
            res = cur + brks
            if not has_default:
                res.append((c.idx, 'case:<none>'))
            return res
        if k == 'BreakStmt':
            self._breaks[-1].extend(outs)
            return []
        if k == 'ContinueStmt':
            self._continues[-1].extend(outs)
            return []
        if k == 'ReturnStmt':
            n = self._atom(s, outs, 'return')
            self._edge((n.idx, None), self.exit.idx)
            return []
        if k == 'CXXTryStmt':
            body = s.kids[0]
            handlers = [h for h in s.kids[1:] if h is not None]
            hentries = [self._new('join', None, 'catch') for _ in handlers]
            catch_all = any(h.kids and h.kids[0] is None or
                            (len(h.kids) == 1) for h in handlers)
            if self._catch_all is None:
                self._catch_all = []
            self._handlers.append([h.idx for h in hentries])
            self._catch_all.append(catch_all)
            bo = self._stmt(body, outs)
            self._handlers.pop()
            self._catch_all.pop()
            res = list(bo)
            for h, he in zip(handlers, hentries):
                hb = h.kids[-1]
                res += self._stmt(hb, [(he.idx, None)])
            return res
        if k == 'CXXThrowExpr':
            self._throw(s, outs)
            return []
        if k in ('LabelStmt', 'GotoStmt', 'IndirectGotoStmt'):
            raise CfgError('%s: goto/label not supported (%s)' % (self.func.label, s.loc))
        # expression / declaration atom
        if self._is_noreturn_call(s):
            self._throw(s, outs)
            return []
        n = self._atom(s, outs)
        return [(n.idx, None)]

    def _index_ast(self):
        for cn in self.nodes:
            if cn.ast is None:
                continue
            for a in cn.ast.walk():
                if id(a) not in self.ast_to_cnode:
                    self.ast_to_cnode[id(a)] = cn.idx

    # ---- queries -----------------------------------------------------------------------
    def cnode_of(self, ast):
        return self.ast_to_cnode.get(id(ast))

    def reachable_from(self, start, skip_edges=None, skip_nodes=None):
        """Set of node idx reachable from `start` (idx or list); skip_edges: set of
        (src, label) pairs or callable(src, dst, label) -> bool to drop."""
        skip_nodes = skip_nodes or set()
        seen = set()
        stack = list(start) if isinstance(start, (list, set, tuple)) else [start]
        while stack:
            v = stack.pop()
            if v in seen or v in skip_nodes:
                continue
            seen.add(v)
            for (w, lab) in self.succ[v]:
                if skip_edges is not None:
                    if callable(skip_edges):
                        if skip_edges(v, w, lab):
                            continue
                    elif (v, lab) in skip_edges:
                        continue
                stack.append(w)
        return seen

    def forward_reachable(self, starts, skip_nodes=None, skip_edges=None):
        """Reachability ignoring loop back edges (within one iteration / one activation)."""
        be = self.back_edges

        def skip(v, w, lab):
            if (v, w) in be:
                return True
            if skip_edges is not None:
                if callable(skip_edges):
                    return skip_edges(v, w, lab)
                return (v, lab) in skip_edges
            return False
        return self.reachable_from(starts, skip, skip_nodes)

    def successors_after(self, v, skip_edges=None, skip_nodes=None):
        """Nodes reachable from v by at least one edge."""
        starts = []
        for (w, lab) in self.succ[v]:
            if skip_edges is not None:
                if callable(skip_edges):
                    if skip_edges(v, w, lab):
                        continue
                elif (v, lab) in skip_edges:
                    continue
            starts.append(w)
        return self.reachable_from(starts, skip_edges, skip_nodes)

    def _compute_dom(self, succ, root):
        nodes = self.reachable_generic(succ, root)
        dom = {v: set(nodes) for v in nodes}
        dom[root] = {root}
        pred = {v: [] for v in nodes}
        for v in nodes:
            for w in succ(v):
                if w in pred:
                    pred[w].append(v)
        order = self._rpo(succ, root)
        changed = True
        while changed:
            changed = False
            for v in order:
                if v == root:
                    continue
                ps = [dom[p] for p in pred[v] if p in dom]
                new = set.intersection(*ps) if ps else set()
                new = new | {v}
                if new != dom[v]:
                    dom[v] = new
                    changed = True
        return dom

    @staticmethod
    def reachable_generic(succ, root):
        seen = set()
        st = [root]
        while st:
            v = st.pop()
            if v in seen:
                continue
            seen.add(v)
            st.extend(succ(v))
        return seen

    @staticmethod
    def _rpo(succ, root):
        seen = set()
        out = []
        st = [(root, iter(list(succ(root))))]
        seen.add(root)
        while st:
            v, it = st[-1]
            adv = False
            for w in it:
                if w not in seen:
                    seen.add(w)
                    st.append((w, iter(list(succ(w)))))
                    adv = True
                    break
            if not adv:
                out.append(v)
                st.pop()
        out.reverse()
        return out

    def dominators(self):
        if self._dom is None:
            self._dom = self._compute_dom(lambda v: [w for w, _ in self.succ[v]], self.entry.idx)
        return self._dom

    def dominates(self, a, b):
        """CFG node a dominates CFG node b (every path entry->b passes a)."""
        d = self.dominators()
        return b in d and a in d[b]

    def postdominators(self, include_throw=False):
        key = '_pdom_t' if include_throw else '_pdom'
        cached = getattr(self, key, None)
        if cached is not None:
            return cached
        sink = -1

        def rsucc(v):
            if v == sink:
                return [self.exit.idx] + ([self.throwexit.idx] if include_throw else [])
            return [p for p, _ in self.pred[v]]
        res = self._compute_dom(rsucc, sink)
        setattr(self, key, res)
        return res

    def postdominates(self, a, b, include_throw=False):
        """every path from b to normal exit (or any exit) passes a"""
        d = self.postdominators(include_throw)
        return b in d and a in d[b]

    def atoms(self):
        return [n for n in self.nodes if n.ast is not None]

    def find_atoms(self, pred):
        """CFG nodes whose AST subtree contains a node satisfying pred; yields (cnode, astnode)
        in CFG index order (construction order ~ source order)."""
        out = []
        for cn in self.nodes:
            if cn.ast is None:
                continue
            for a in cn.ast.walk():
                if pred(a):
                    out.append((cn, a))
        return out


_cfg_cache = {}


def cfg_of(func):
    c = _cfg_cache.get(id(func))
    if c is None:
        c = CFG(func)
        _cfg_cache[id(func)] = c
    return c


def flag_reachable(cfg, start_edges, env0=None):
    """Nodes reachable from `start_edges` (list of node idx to start at) when the values of plain
    bool locals are followed along each path: `flag = true/false` (declaration or assignment with a
    constant) fixes the value, any other write forgets it, and a later test of the bare flag
    (under any number of `!`) takes only the edge that agrees with a known value.  This removes
    the infeasible paths of the `ok = false; break; ... if (ok)` idiom; everything else is
    over-approximated as in `reachable_from`."""
    from .rules.common import unnegate, member_path, strip_casts
    seen = set()
    out = set()
    stack = [(s, frozenset((env0 or {}).items())) for s in start_edges]
    while stack:
        v, envf = stack.pop()
        if (v, envf) in seen:
            continue
        seen.add((v, envf))
        out.add(v)
        env = dict(envf)
        cn = cfg.nodes[v]
        a = cn.ast
        if cn.kind != 'cond' and a is not None:
            for n in a.walk():
                if n.kind == 'VarDecl' and n.name and (n.type or '').replace('const ', '').strip() == 'bool':
                    val = const_eval(n.kids[-1]) if n.kids else None
                    if isinstance(val, bool):
                        env[n.name] = val
                    else:
                        env.pop(n.name, None)
                elif n.kind == 'BinaryOperator' and n.op == '=' and len(n.kids) == 2:
                    p = member_path(strip_casts(n.kids[0]))
                    if p and '.' not in p:
                        val = const_eval(n.kids[1])
                        if isinstance(val, bool):
                            env[p] = val
                        else:
                            env.pop(p, None)
                elif n.kind == 'CompoundAssignOperator' and n.kids:
                    p = member_path(strip_casts(n.kids[0]))
                    if p:
                        env.pop(p, None)
        for (w, lab) in cfg.succ[v]:
            env2 = env
            if cn.kind == 'cond' and a is not None and lab in (True, False):
                base, pos = unnegate(a)
                p = member_path(base) if base is not None and base.kind == 'DeclRefExpr' else None
                if p is not None:
                    val = lab if pos else (not lab)
                    if p in env and env[p] != val:
                        continue
                    env2 = dict(env)
                    env2[p] = val
            stack.append((w, frozenset(env2.items())))
    return out
