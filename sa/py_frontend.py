"""Python front end: ast loader for the optree package, name helpers, call-argument binding and a
small statement-level CFG (with short-circuit decomposition) for ordering / dominance rules."""
from __future__ import annotations

import ast
import glob
import os

REPO = os.environ.get('OPTREE_REPO', '/repo')


class PyFrontendError(Exception):
    pass


class Module:
    def __init__(self, name, path, source, tree):
        self.name = name
        self.path = path
        self.relpath = os.path.relpath(path, REPO)
        self.source = source
        self.tree = tree
        self.funcs = {}
        self.classes = {}
        self._index(tree, '')

    def _index(self, node, prefix):
        for n in getattr(node, 'body', []):
            if isinstance(n, (ast.FunctionDef, ast.AsyncFunctionDef)):
                q = prefix + n.name
                # keep the *last* definition (overloads come first, the implementation last)
                self.funcs[q] = n
                self._index(n, q + '.')
            elif isinstance(n, ast.ClassDef):
                q = prefix + n.name
                self.classes[q] = n
                self._index(n, q + '.')
            elif isinstance(n, (ast.If, ast.Try, ast.With)):
                self._index(n, prefix)
                for h in getattr(n, 'handlers', []):
                    self._index(h, prefix)
                if getattr(n, 'orelse', None):
                    class _W:
                        body = n.orelse
                    self._index(_W, prefix)

    def func(self, qual):
        f = self.funcs.get(qual)
        if f is None:
            raise PyFrontendError('%s: function %s not found' % (self.relpath, qual))
        return f

    def loc(self, node):
        return '%s:%s' % (self.relpath, getattr(node, 'lineno', '?'))

    def top_assign(self, name):
        """value expression assigned to a module-level name (last assignment)"""
        val = None
        for n in self.tree.body:
            if isinstance(n, ast.Assign):
                for t in n.targets:
                    if isinstance(t, ast.Name) and t.id == name:
                        val = n.value
            elif isinstance(n, ast.AnnAssign) and isinstance(n.target, ast.Name) and \
                    n.target.id == name and n.value is not None:
                val = n.value
        return val


class Package:
    def __init__(self):
        self.modules = {}

    def num_functions(self):
        return sum(len(m.funcs) for m in self.modules.values())

    def mod(self, name):
        m = self.modules.get(name)
        if m is None:
            raise PyFrontendError('module %s not found' % name)
        return m


_pkg = None


def load_package():
    global _pkg
    if _pkg is not None:
        return _pkg
    pkg = Package()
    root = os.path.join(REPO, 'optree')
    files = sorted(glob.glob(os.path.join(root, '**', '*.py'), recursive=True))
    if not files:
        raise PyFrontendError('no Python sources under %s' % root)
    for p in files:
        rel = os.path.relpath(p, REPO)[:-3].replace(os.sep, '.')
        if rel.endswith('.__init__'):
            rel = rel[:-9]
        try:
            src = open(p, encoding='utf-8').read()
            tree = ast.parse(src, filename=p)
        except (OSError, SyntaxError) as e:
            raise PyFrontendError('%s does not parse: %s' % (p, e))
        normalise_negations(tree)
        canonical_compares(tree)
        inline_explaining_variables(tree)
        hoist_else_after_exit(tree)
        merge_split_guards(tree)
        pkg.modules[rel] = Module(rel, p, src, tree)
    # stub file for the extension module
    pyi = os.path.join(root, '_C.pyi')
    if os.path.exists(pyi):
        try:
            src = open(pyi, encoding='utf-8').read()
            pkg.modules['optree._C(pyi)'] = Module('optree._C(pyi)', pyi, src, ast.parse(src))
        except SyntaxError as e:
            raise PyFrontendError('%s does not parse: %s' % (pyi, e))
    _pkg = pkg
    return pkg


# ---- expression helpers ------------------------------------------------------------------------
def dotted(e):
    """dotted name of a Name/Attribute chain, else None"""
    if isinstance(e, ast.Name):
        return e.id
    if isinstance(e, ast.Attribute):
        b = dotted(e.value)
        return (b + '.' + e.attr) if b is not None else None
    if isinstance(e, ast.Call):
        b = dotted(e.func)
        return (b + '()') if b is not None else None
    if isinstance(e, ast.Subscript):
        b = dotted(e.value)
        if b is None:
            return None
        if isinstance(e.slice, ast.Constant):
            return '%s[%r]' % (b, e.slice.value)
        return b + '[]'
    return None


def call_name(c):
    return dotted(c.func) if isinstance(c, ast.Call) else None


def calls_under(node, name=None, skip_nested_defs=True):
    out = []
    for n in walk(node, skip_nested_defs):
        if isinstance(n, ast.Call):
            if name is None or call_name(n) == name or \
                    (isinstance(name, (set, frozenset, tuple, list)) and call_name(n) in name):
                out.append(n)
    return out


def walk(node, skip_nested_defs=True):
    """ast.walk that does not enter nested function/class/lambda bodies (optionally)"""
    stack = [node]
    first = True
    while stack:
        n = stack.pop()
        yield n
        for c in reversed(list(ast.iter_child_nodes(n))):
            if skip_nested_defs and isinstance(c, (ast.FunctionDef, ast.AsyncFunctionDef,
                                                   ast.ClassDef, ast.Lambda)):
                continue
            stack.append(c)


def names_in(node):
    return {n.id for n in ast.walk(node) if isinstance(n, ast.Name)}


def param_names(fn):
    a = fn.args
    pos = [x.arg for x in a.posonlyargs] + [x.arg for x in a.args]
    kwonly = [x.arg for x in a.kwonlyargs]
    return pos, a.vararg.arg if a.vararg else None, kwonly, a.kwarg.arg if a.kwarg else None


def bind_call(call, fn):
    """Map callee parameter name -> argument expression for a call to a Python function `fn`.
    '*name' keys hold a list for the star-args tail.  Returns (mapping, problems)."""
    pos, var, kwonly, kw = param_names(fn)
    m = {}
    problems = []
    i = 0
    for a in call.args:
        if isinstance(a, ast.Starred):
            m.setdefault('*', []).append(a.value)
            # a starred argument fills the remaining positional parameters opaquely
            i = len(pos)
            continue
        if i < len(pos):
            m[pos[i]] = a
            i += 1
        elif var:
            m.setdefault('*' + var, []).append(a)
        else:
            problems.append('too many positional arguments')
    for k in call.keywords:
        if k.arg is None:
            m.setdefault('**', []).append(k.value)
        elif k.arg in pos or k.arg in kwonly:
            m[k.arg] = k.value
        elif kw:
            m.setdefault('**' + kw, {})[k.arg] = k.value
        else:
            problems.append('unknown keyword %s' % k.arg)
    return m, problems


def is_name(e, name):
    return isinstance(e, ast.Name) and e.id == name


def src(node):
    try:
        return ast.unparse(node)
    except Exception:
        return '<%s>' % type(node).__name__


# ---- structural patterns -----------------------------------------------------------------------
_PAT_CACHE = {}
_MV = '__mv_'
_MVX = '__mvx_'


_MIRROR = {ast.Lt: ast.Gt, ast.Gt: ast.Lt, ast.LtE: ast.GtE, ast.GtE: ast.LtE}


_PY_FLIP = {ast.Eq: ast.NotEq, ast.NotEq: ast.Eq, ast.Is: ast.IsNot, ast.IsNot: ast.Is,
            ast.In: ast.NotIn, ast.NotIn: ast.In}


def normalise_negations(tree):
    """Negations in tests are pushed inward (the Python half of cxx_frontend.normalise_negations):
    `not a == b` is shown as `a != b` (and `is` / `in` likewise - not the orderings, which need
    not be total), `not (A and B)` as `not A or not B`, `not (A or B)` as `not A and not B`, and
    `not not x` as `x`.  Only where a truth value is asked for: the tests of if / while / assert,
    of conditional expressions and of comprehension conditions, and the operands of `and` / `or` /
    `not` inside them."""
    def nnf(e, neg=False):
        if isinstance(e, ast.UnaryOp) and isinstance(e.op, ast.Not):
            return nnf(e.operand, not neg)
        if isinstance(e, ast.BoolOp):
            op = e.op
            if neg:
                op = ast.Or() if isinstance(e.op, ast.And) else ast.And()
            return ast.copy_location(ast.BoolOp(op=op, values=[nnf(v, neg) for v in e.values]), e)
        if neg and isinstance(e, ast.Compare) and len(e.ops) == 1 and type(e.ops[0]) in _PY_FLIP:
            return ast.copy_location(ast.Compare(left=e.left, ops=[_PY_FLIP[type(e.ops[0])]()],
                                                 comparators=e.comparators), e)
        if neg:
            return ast.copy_location(ast.UnaryOp(op=ast.Not(), operand=e), e)
        return e
    for n in ast.walk(tree):
        if isinstance(n, (ast.If, ast.While, ast.IfExp, ast.Assert)):
            n.test = nnf(n.test)
        elif isinstance(n, ast.comprehension):
            n.ifs = [nnf(t) for t in n.ifs]
    return tree


def canonical_compares(tree):
    """one spelling for single comparisons with a constant operand: the constant on the right
    (`1 == n` is `n == 1`, `None is x` is `x is None`, `0 < n` is `n > 0`).  The rules read
    comparisons off the canonical tree; positions are those of the source."""
    for node in ast.walk(tree):
        if isinstance(node, ast.Compare) and len(node.ops) == 1:
            l, r, op = node.left, node.comparators[0], node.ops[0]
            if isinstance(l, ast.Constant) and not isinstance(r, ast.Constant):
                if type(op) in _MIRROR:
                    node.left, node.comparators, node.ops = r, [l], [_MIRROR[type(op)]()]
                elif isinstance(op, (ast.Eq, ast.NotEq, ast.Is, ast.IsNot)):
                    node.left, node.comparators = r, [l]
    return tree


def hoist_else_after_exit(tree):
    """No else after a branch that always leaves (the Python half of
    cxx_frontend.hoist_else_after_exit): `if c: ...; return x` + `else: REST` is shown as the guard
    followed by REST in the enclosing statement list; `elif` chains after exiting arms become a
    sequence of guards."""
    def always_exits(body):
        b = [x for x in body if not isinstance(x, ast.Pass)]
        if not b:
            return False
        last = b[-1]
        if isinstance(last, (ast.Return, ast.Raise, ast.Continue, ast.Break)):
            return True
        if isinstance(last, ast.If) and last.orelse:
            return always_exits(last.body) and always_exits(last.orelse)
        return False

    def fix(body):
        for s_ in body:
            for fld in ('body', 'orelse', 'finalbody'):
                b = getattr(s_, fld, None)
                if isinstance(b, list) and b and isinstance(b[0], ast.stmt):
                    fix(b)
            if isinstance(s_, ast.Try):
                for h in s_.handlers:
                    fix(h.body)
            if hasattr(ast, 'Match') and isinstance(s_, ast.Match):
                for c in s_.cases:
                    fix(c.body)
        i = 0
        while i < len(body):
            s_ = body[i]
            if isinstance(s_, ast.If) and s_.orelse and always_exits(s_.body):
                tail = s_.orelse
                s_.orelse = []
                body[i + 1:i + 1] = tail
            i += 1
    fix(tree.body)
    return tree


def merge_split_guards(tree):
    """One guard, one `if` (the Python half of cxx_frontend.merge_split_guards):
    `if A: (if B: S)` with no else on either is shown as `if A and B: S`; `if A: X` directly
    followed by `if B: X` with the same single exiting statement X (return / raise / continue /
    break) as `if A or B: X`.  `and` / `or` evaluate left to right and stop early exactly like the
    chain of statements."""
    def plain(s):
        return isinstance(s, ast.If) and not s.orelse

    def eff(body):
        return [x for x in body if not isinstance(x, ast.Pass)]

    def exit_only(s):
        b = eff(s.body)
        return len(b) == 1 and isinstance(b[0], (ast.Return, ast.Raise, ast.Continue, ast.Break))

    def both(op, a, b):
        vals = []
        for v in (a, b):
            if isinstance(v, ast.BoolOp) and isinstance(v.op, type(op)):
                vals += v.values
            else:
                vals.append(v)
        return ast.copy_location(ast.BoolOp(op=op, values=vals), a)

    def fix(body):
        for s_ in body:
            for fld in ('body', 'orelse', 'finalbody'):
                b = getattr(s_, fld, None)
                if isinstance(b, list) and b and isinstance(b[0], ast.stmt):
                    fix(b)
            if isinstance(s_, ast.Try):
                for h in s_.handlers:
                    fix(h.body)
            if isinstance(s_, ast.Match):
                for c in s_.cases:
                    fix(c.body)
        for s_ in body:
            while plain(s_):
                b = eff(s_.body)
                if len(b) == 1 and plain(b[0]):
                    s_.test = both(ast.And(), s_.test, b[0].test)
                    s_.body = b[0].body
                else:
                    break
        i = 0
        while i < len(body) - 1:
            a = body[i]
            j = i + 1
            while j < len(body) - 1 and isinstance(body[j], ast.Pass):
                j += 1
            c = body[j]
            if plain(a) and plain(c) and exit_only(a) and exit_only(c) and \
                    ast.dump(eff(a.body)[0]) == ast.dump(eff(c.body)[0]):
                a.test = both(ast.Or(), a.test, c.test)
                del body[i + 1:j + 1]
                continue
            i += 1
    fix(tree.body)
    return tree


def inline_explaining_variables(tree):
    """`t = <expr>` immediately followed by the only use of `t`, where that use is the whole value
    of a `return`, or a direct (not starred) argument of the call that is the value of the next
    `return` / assignment / expression statement: the rules see the expression where it is used.
    (`out = f(x); return out`, `tmp = g(y); return f(tmp)`.)  The name must be bound once and read
    once in the function, and the use must not sit in a nested scope (lambda, comprehension),
    where it could be evaluated later or more than once."""
    for fn in ast.walk(tree):
        if not isinstance(fn, (ast.FunctionDef, ast.AsyncFunctionDef)):
            continue
        counts = {}
        for n in ast.walk(fn):
            if isinstance(n, ast.Name):
                c = counts.setdefault(n.id, [0, 0])
                c[0 if isinstance(n.ctx, ast.Store) else 1] += 1
        params = {a.arg for a in fn.args.posonlyargs + fn.args.args + fn.args.kwonlyargs}

        def fix(body):
            changed = True
            while changed:
                changed = False
                for i in range(len(body) - 1):
                    s0 = body[i]
                    j_ = i + 1
                    while j_ < len(body) - 1 and isinstance(body[j_], ast.Pass):
                        j_ += 1          # `pass` between the binding and its use changes nothing
                    s1 = body[j_]
                    if not (isinstance(s0, ast.Assign) and len(s0.targets) == 1 and
                            isinstance(s0.targets[0], ast.Name)):
                        continue
                    t = s0.targets[0].id
                    if counts.get(t) != [1, 1] or t in params:
                        continue
                    host = None
                    if isinstance(s1, ast.Return) and s1.value is not None:
                        host = ('value', s1)
                    elif isinstance(s1, ast.Assign) and isinstance(s1.value, ast.Call):
                        host = ('value', s1)
                    elif isinstance(s1, ast.Expr) and isinstance(s1.value, ast.Call):
                        host = ('value', s1)
                    if host is None:
                        continue
                    v = s1.value
                    done = False
                    if isinstance(v, ast.Name) and v.id == t and isinstance(s1, ast.Return):
                        s1.value = s0.value
                        done = True
                    elif isinstance(v, ast.Call):
                        # evaluation order: everything evaluated before the argument must be simple
                        pre_ok = isinstance(v.func, (ast.Name, ast.Attribute))
                        for j, a in enumerate(v.args):
                            if isinstance(a, ast.Name) and a.id == t and pre_ok:
                                v.args[j] = s0.value
                                done = True
                                break
                            if not isinstance(a, (ast.Name, ast.Constant, ast.Attribute)):
                                break
                    if done:
                        del body[i]
                        changed = True
                        break
            for s_ in body:
                for fld in ('body', 'orelse', 'finalbody'):
                    b = getattr(s_, fld, None)
                    if isinstance(b, list) and b and isinstance(b[0], ast.stmt) and \
                            not isinstance(s_, (ast.FunctionDef, ast.AsyncFunctionDef, ast.ClassDef)):
                        fix(b)
                if isinstance(s_, ast.Try):
                    for h in s_.handlers:
                        fix(h.body)
        fix(fn.body)
    return tree


def _parse_pattern(pattern):
    if pattern in _PAT_CACHE:
        return _PAT_CACHE[pattern]
    import re as _re
    text = _re.sub(r'\?\?(\w+)', _MVX + r'\1', pattern)
    text = _re.sub(r'\?(\w+)', _MV + r'\1', text)
    try:
        tree = ast.parse(text, mode='eval').body
    except SyntaxError:
        mod = ast.parse(text)
        tree = mod.body[0]
        if isinstance(tree, ast.Expr):
            tree = tree.value
    _PAT_CACHE[pattern] = tree
    return tree


def pmatch(node, pattern, env=None):
    """Match an ast node against a pattern written as Python source with metavariables:
    `?x` matches a plain name (a local variable whose spelling does not matter) and binds x to the
    identifier; `??x` matches any expression and binds x to its normal form.  A metavariable that
    is already bound (in `env`, or earlier in the same pattern) must match the same thing.
    Returns the extended environment (a new dict) or None.  Everything else - attribute names,
    called functions, constants, keywords, operators, statement shape - must agree exactly, so a
    rule written with pmatch is insensitive to renaming locals and to nothing else."""
    env = dict(env or {})
    pat = _parse_pattern(pattern)
    if isinstance(node, ast.Expr) and not isinstance(pat, ast.Expr):
        node = node.value       # expression statement against an expression pattern
    return env if _pm(node, pat, env) else None


def _pm(n, p, env):
    if isinstance(p, ast.Name):
        if p.id.startswith(_MVX):
            key = p.id[len(_MVX):]
            val = ast.dump(n) if isinstance(n, ast.AST) else repr(n)
            if key in env:
                return env[key] == val
            env[key] = val
            return True
        if p.id.startswith(_MV):
            key = p.id[len(_MV):]
            if not isinstance(n, ast.Name):
                return False
            if key in env:
                return env[key] == n.id
            env[key] = n.id
            return True
    if isinstance(p, ast.arg) and p.arg.startswith(_MV):
        key = p.arg[len(_MV):]
        if not isinstance(n, ast.arg):
            return False
        if key in env:
            return env[key] == n.arg
        env[key] = n.arg
        return True
    if type(n) is not type(p):
        return False
    if isinstance(p, ast.AST):
        for f in p._fields:
            if f in ('ctx', 'type_comment', 'kind'):
                continue
            if not _pm(getattr(n, f, None), getattr(p, f, None), env):
                return False
        return True
    if isinstance(p, list):
        return len(n) == len(p) and all(_pm(a, b, env) for a, b in zip(n, p))
    return n == p


def pfind(root, pattern, env=None, skip_nested_defs=True):
    """all (node, env) under root that match the pattern (statements and expressions)"""
    out = []
    pat = _parse_pattern(pattern)
    for n in walk(root, skip_nested_defs):
        if type(n) is type(pat) or (isinstance(pat, ast.Name) and isinstance(n, ast.expr)):
            e = pmatch(n, pattern, env)
            if e is not None:
                out.append((n, e))
    return out


# ---- CFG ---------------------------------------------------------------------------------------
class PNode:
    __slots__ = ('idx', 'kind', 'ast', 'label')

    def __init__(self, idx, kind, ast_=None, label=None):
        self.idx = idx
        self.kind = kind     # entry exit raise atom cond return join yield
        self.ast = ast_
        self.label = label

    def __repr__(self):
        return '<P%d %s %s>' % (self.idx, self.kind, src(self.ast)[:60] if self.ast is not None
                                else (self.label or ''))


class PyCFG:
    """Statement-level CFG of one function body.  Exceptional edges: explicit `raise`, and from
    every atom inside a `try` body to its handlers / finally."""

    def __init__(self, fn):
        self.fn = fn
        self.nodes = []
        self.succ = {}
        self.pred = {}
        self.entry = self._new('entry')
        self.exit = self._new('exit')
        self.raise_exit = self._new('raise')
        self.back_edges = set()
        self._loops = []
        self._trys = []     # stack of (handler entry nodes, finally stmts or None)
        self.ast_to_node = {}
        outs = self._block(fn.body, [(self.entry.idx, None)])
        for o in outs:
            self._edge(o, self.exit.idx)
        for n in self.nodes:
            if n.ast is not None:
                for a in walk(n.ast):
                    self.ast_to_node.setdefault(id(a), n.idx)
        self._dom = None

    def _new(self, kind, a=None, label=None):
        n = PNode(len(self.nodes), kind, a, label)
        self.nodes.append(n)
        self.succ[n.idx] = []
        self.pred[n.idx] = []
        return n

    def _edge(self, frm, to):
        s, lab = frm
        self.succ[s].append((to, lab))
        self.pred[to].append((s, lab))

    def _join(self, outs, kind='join', a=None, label=None):
        n = self._new(kind, a, label)
        for o in outs:
            self._edge(o, n.idx)
        if kind in ('atom', 'cond', 'return', 'yield') and self._trys:
            for h in self._trys[-1][0]:
                self._edge((n.idx, 'exc'), h)
        return n

    def _cond(self, e, outs):
        if not outs:
            return [], []
        if isinstance(e, ast.BoolOp):
            if isinstance(e.op, ast.And):
                t = outs
                fs = []
                for v in e.values:
                    t, f = self._cond(v, t)
                    fs += f
                return t, fs
            else:
                f = outs
                ts = []
                for v in e.values:
                    t, f = self._cond(v, f)
                    ts += t
                return ts, f
        if isinstance(e, ast.UnaryOp) and isinstance(e.op, ast.Not):
            t, f = self._cond(e.operand, outs)
            return f, t
        if isinstance(e, ast.Constant):
            return (list(outs), []) if e.value else ([], list(outs))
        n = self._join(outs, 'cond', e)
        return [(n.idx, True)], [(n.idx, False)]

    def _block(self, stmts, outs):
        for s in stmts:
            outs = self._stmt(s, outs)
        return outs

    def _stmt(self, s, outs):
        if not outs:
            return []
        if isinstance(s, ast.If):
            t, f = self._cond(s.test, outs)
            return self._block(s.body, t) + self._block(s.orelse, f)
        if isinstance(s, (ast.For, ast.AsyncFor)):
            it = self._join(outs, 'atom', s.iter)
            head = self._join([(it.idx, None)], 'cond', s.target, 'for-head')
            self._loops.append(([], []))
            bo = self._block(s.body, [(head.idx, True)])
            brk, cont = self._loops.pop()
            for o in bo + cont:
                self._edge(o, head.idx)
                self.back_edges.add((o[0], head.idx))
            eo = self._block(s.orelse, [(head.idx, False)])
            return eo + brk
        if isinstance(s, ast.While):
            head = self._join(outs, 'join', None, 'while-head')
            t, f = self._cond(s.test, [(head.idx, None)])
            self._loops.append(([], []))
            bo = self._block(s.body, t)
            brk, cont = self._loops.pop()
            for o in bo + cont:
                self._edge(o, head.idx)
                self.back_edges.add((o[0], head.idx))
            return self._block(s.orelse, f) + brk
        if isinstance(s, ast.Break):
            self._loops[-1][0].extend(outs)
            return []
        if isinstance(s, ast.Continue):
            self._loops[-1][1].extend(outs)
            return []
        if isinstance(s, ast.Return):
            n = self._join(outs, 'return', s)
            # a return inside try/finally runs the finally blocks first
            o = [(n.idx, None)]
            for hs, fin in reversed(self._trys):
                if fin:
                    saved = self._trys
                    self._trys = self._trys[:self._trys.index((hs, fin))]
                    o = self._block(fin, o)
                    self._trys = saved
            for x in o:
                self._edge(x, self.exit.idx)
            return []
        if isinstance(s, ast.Raise):
            n = self._join(outs, 'raise', s)
            if self._trys:
                for h in self._trys[-1][0]:
                    self._edge((n.idx, 'exc'), h)
                if not self._trys[-1][2] if len(self._trys[-1]) > 2 else True:
                    pass
            else:
                self._edge((n.idx, 'exc'), self.raise_exit.idx)
            return []
        if isinstance(s, ast.Try) or (hasattr(ast, 'TryStar') and isinstance(s, getattr(ast, 'TryStar'))):
            hentries = [self._new('join', None, 'except') for _ in s.handlers]
            fin_entry = None
            targets = [h.idx for h in hentries]
            if s.finalbody:
                fin_entry = self._new('join', None, 'finally(exc)')
                targets = targets + [fin_entry.idx] if not s.handlers else targets
                if s.handlers:
                    # an exception no handler matches still runs finally
                    targets = targets + [fin_entry.idx]
            elif s.handlers:
                # no finally: an exception that no handler matches (anything outside `Exception`
                # for `except Exception`) leaves the statement - unless a handler catches all
                catch_all = any(h.type is None or dotted(h.type) == 'BaseException' or
                                (isinstance(h.type, ast.Tuple) and
                                 any(dotted(e) == 'BaseException' for e in h.type.elts))
                                for h in s.handlers)
                if not catch_all:
                    targets = targets + (list(self._trys[-1][0]) if self._trys else [self.raise_exit.idx])
            self._trys.append((targets, s.finalbody or None))
            bo = self._block(s.body, outs)
            self._trys.pop()
            bo = self._block(s.orelse, bo)
            ho = []
            # handlers run with the finally still pending
            if s.finalbody:
                self._trys.append(([fin_entry.idx], s.finalbody))
            for h, he in zip(s.handlers, hentries):
                ho += self._block(h.body, [(he.idx, None)])
            if s.finalbody:
                self._trys.pop()
            normal = bo + ho
            if s.finalbody:
                normal = self._block(s.finalbody, normal)
                # exceptional copy of the finally block: runs, then re-raises
                eo = self._block(s.finalbody, [(fin_entry.idx, None)])
                for o in eo:
                    if self._trys:
                        for h in self._trys[-1][0]:
                            self._edge((o[0], 'exc'), h)
                    else:
                        self._edge((o[0], 'exc'), self.raise_exit.idx)
            else:
                pass
            return normal
        if isinstance(s, (ast.With, ast.AsyncWith)):
            n = self._join(outs, 'atom', s, 'with')
            # the With node itself is the atom for its context expressions
            n.ast = ast.Expr(value=ast.Tuple(elts=[i.context_expr for i in s.items], ctx=ast.Load()))
            ast.copy_location(n.ast, s)
            n.label = 'with'
            return self._block(s.body, [(n.idx, None)])
        if isinstance(s, (ast.FunctionDef, ast.AsyncFunctionDef, ast.ClassDef)):
            n = self._join(outs, 'atom', s, 'def ' + s.name)
            n.ast = None
            return [(n.idx, None)]
        if isinstance(s, ast.Expr) and isinstance(s.value, (ast.Yield, ast.YieldFrom)):
            n = self._join(outs, 'yield', s)
            return [(n.idx, None)]
        if isinstance(s, ast.Assert):
            n = self._join(outs, 'cond', s.test)
            f = self._join([(n.idx, False)], 'raise', s, 'assert')
            if self._trys:
                for h in self._trys[-1][0]:
                    self._edge((f.idx, 'exc'), h)
            else:
                self._edge((f.idx, 'exc'), self.raise_exit.idx)
            return [(n.idx, True)]
        n = self._join(outs, 'atom', s)
        return [(n.idx, None)]

    # ---- queries ---------------------------------------------------------------------------
    def node_of(self, a):
        return self.ast_to_node.get(id(a))

    def reachable(self, starts, skip_nodes=None, skip_back=True, skip_edge=None):
        skip_nodes = skip_nodes or set()
        seen = set()
        st = list(starts)
        while st:
            v = st.pop()
            if v in seen or v in skip_nodes:
                continue
            seen.add(v)
            for (w, lab) in self.succ[v]:
                if skip_back and (v, w) in self.back_edges:
                    continue
                if skip_edge is not None and skip_edge(v, w, lab):
                    continue
                st.append(w)
        return seen

    def dominators(self):
        if self._dom is not None:
            return self._dom
        nodes = self.reachable([self.entry.idx], skip_back=False)
        dom = {v: set(nodes) for v in nodes}
        dom[self.entry.idx] = {self.entry.idx}
        changed = True
        order = sorted(nodes)
        while changed:
            changed = False
            for v in order:
                if v == self.entry.idx:
                    continue
                ps = [dom[p] for p, _ in self.pred[v] if p in dom]
                new = (set.intersection(*ps) if ps else set()) | {v}
                if new != dom[v]:
                    dom[v] = new
                    changed = True
        self._dom = dom
        return dom

    def dominates(self, a, b):
        d = self.dominators()
        return b in d and a in d[b]

    def must_pass(self, frm, through, to):
        """every path frm -> `to` passes a node of `through`"""
        r = self.reachable([w for (w, _) in self.succ[frm]], skip_nodes=set(through), skip_back=False)
        return to not in r


_cfgs = {}


def pycfg(fn):
    c = _cfgs.get(id(fn))
    if c is None:
        c = PyCFG(fn)
        _cfgs[id(fn)] = c
    return c
