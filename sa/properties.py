"""Property -> rules, explanation, declined clauses."""
from __future__ import annotations

PROPERTIES = {}


def prop(pid, rules, explanation, declined, thorough_rules=None):
    PROPERTIES[pid] = {'rules': rules, 'explanation': explanation, 'declined': declined,
                       'thorough_rules': thorough_rules or []}


THOROUGH_CONFIGS = ['py312', 'py311', 'py313', 'py313t']
