"""Effect table for external callees (CPython C-API, pybind11, libstdc++) and interprocedural
effect summaries for repo-defined functions.

Effects (a call may have several):
  PY        may run arbitrary Python code before returning
  PYDEL     may run destructors (DECREF to zero)
  ONCE      one-time initialiser (`gil_safe_call_once_and_store`): runs its lambda once and
            releases/re-acquires the GIL on that first call only; reported, not counted as PY
  THROWS    throws a C++ exception on failure (pybind11 wrappers)
  NEWREF    returns an owned PyObject*
  BORROW    returns a borrowed PyObject*
  NULLABLE  may return NULL
  SWALLOWS  documented to discard exceptions raised by the user code it runs
  RC_FAIL   reports failure through its return value (int < 0 / NULL) - result must be used
  STEALS    steals a reference to its value argument
  MUTATES   mutates its first argument (a Python container) in place
  ERRCLEAR  clears the pending Python error
Every row carries a one-line reason; the table is closed: a C-API / pybind11 name that is not in
it is UNKNOWN and makes a rule that meets it in a relevant region fail as an analysis error.
"""
from __future__ import annotations

import re

from .cxx_ir import CALL_KINDS, CTOR_KINDS

PY, PYDEL, ONCE, THROWS = 'PY', 'PYDEL', 'ONCE', 'THROWS'
NEWREF, BORROW, NULLABLE, SWALLOWS = 'NEWREF', 'BORROW', 'NULLABLE', 'SWALLOWS'
RC_FAIL, STEALS, MUTATES, ERRCLEAR, UNKNOWN = 'RC_FAIL', 'STEALS', 'MUTATES', 'ERRCLEAR', 'UNKNOWN'

# ---- CPython C-API (free functions / static inlines; macros are expanded by clang) -----------
CAPI = {
    'PyObject_GetAttr': ({PY, NEWREF, NULLABLE}, 'attribute lookup runs __getattribute__/descriptors'),
    'PyDict_GetItem': ({PY, BORROW, NULLABLE, SWALLOWS},
                       'hashes/compares the key (user __hash__/__eq__) and suppresses their errors'),
    'PyDict_GetItemWithError': ({PY, BORROW, NULLABLE}, 'like GetItem but keeps the error'),
    'PyDict_GetItemRef': ({PY, RC_FAIL}, 'hashes/compares the key; -1 on error'),
    'PyDict_SetItem': ({PY, RC_FAIL, MUTATES}, 'hashes/compares the key; -1 on error'),
    'PyDict_Contains': ({PY, RC_FAIL}, 'hashes/compares the key; -1 on error'),
    'PyDict_Keys': ({NEWREF}, 'new list of keys in *storage* order (NULL only when allocation fails); ignores OrderedDict order'),
    'PyDict_Values': ({NEWREF}, 'storage order'),
    'PyDict_Items': ({NEWREF}, 'storage order'),
    'PyDict_Next': (set(), 'storage order iteration'),
    'PyDict_Size': (set(), 'size'),
    'PyDict_GET_SIZE': (set(), 'size'),
    'PyList_GET_SIZE': (set(), 'size'),
    'PyTuple_GET_SIZE': (set(), 'size'),
    'PyList_Sort': ({PY, RC_FAIL, MUTATES}, 'rich comparisons of the elements'),
    'PyList_Reverse': ({RC_FAIL, MUTATES}, 'in-place reverse'),
    'PyList_SetSlice': ({RC_FAIL, MUTATES, PYDEL}, 'replaces a slice; releases the old items'),
    'PyList_GetSlice': ({NEWREF}, 'new list'),
    'PySequence_List': ({PY, NEWREF, NULLABLE}, 'iterates an arbitrary iterable'),
    'PyList_SET_ITEM': ({STEALS, MUTATES}, 'stores without touching refcounts'),
    'PyTuple_SET_ITEM': ({STEALS, MUTATES}, 'stores without touching refcounts'),
    'PyList_GetItemRef': ({NEWREF, NULLABLE}, 'checked index, strong reference'),
    'PyList_GetItem': ({BORROW, NULLABLE}, 'checked index'),
    'PyTuple_GetItem': ({BORROW, NULLABLE}, 'checked index'),
    'PyErr_WarnEx': ({PY, RC_FAIL}, 'runs the warnings machinery (filters, showwarning hooks); -1 when the warning became an exception'),
    'PyErr_Clear': ({ERRCLEAR, PYDEL}, 'drops the pending exception'),
    'PyErr_SetString': (set(), 'sets the error indicator'),
    'PyErr_Format': (set(), 'sets the error indicator'),
    'PyErr_Occurred': (set(), 'reads the error indicator'),
    'PyCallable_Check': (set(), 'type slot test'),
    'PyType_Check': (set(), 'flag test'),
    'PyType_HasFeature': (set(), 'flag test'),
    'PyType_FastSubclass': (set(), 'flag test'),
    'PyType_Ready': ({RC_FAIL}, 'type initialisation'),
    'PyUnicode_InternFromString': ({NEWREF, NULLABLE}, 'allocates/interns'),
    'PyModuleDef_Init': (set(), 'module init'),
    'Py_DECREF': ({PYDEL}, 'may run a destructor'),
    'Py_XDECREF': ({PYDEL}, 'may run a destructor'),
    'Py_INCREF': (set(), 'refcount'),
    'Py_XINCREF': (set(), 'refcount'),
    'Py_IS_TYPE': (set(), 'pointer compare'),
    'Py_TYPE': (set(), 'field read'),
    'Py_GetVersion': (set(), 'constant'),
    'PyMutex_Lock': (set(), 'lock'),
    'PyMutex_Unlock': (set(), 'unlock'),
    'PyCriticalSection_Begin': (set(), 'per-object lock (free-threaded build)'),
    'PyCriticalSection_End': (set(), 'per-object lock'),
    'PyCriticalSection2_Begin': (set(), 'per-object lock'),
    'PyCriticalSection2_End': (set(), 'per-object lock'),
    'PyIter_Next': ({PY, NEWREF, NULLABLE}, 'runs __next__'),
    'PyObject_GetIter': ({PY, NEWREF, NULLABLE}, 'runs __iter__'),
    'PyLong_CheckExact': (set(), 'type compare'),
    '_Py_IsImmortal': (set(), 'flag'),
    # not used by the pinned tree; classified so that a change which starts using them is analysed
    # with the right effects instead of "unknown name"
    'PyObject_Vectorcall': ({PY, NEWREF, NULLABLE}, 'calls a Python callable'),
    'PyObject_VectorcallMethod': ({PY, NEWREF, NULLABLE}, 'calls a Python method'),
    'PyObject_Call': ({PY, NEWREF, NULLABLE}, 'calls a Python callable'),
    'PyObject_CallObject': ({PY, NEWREF, NULLABLE}, 'calls a Python callable'),
    'PyObject_CallNoArgs': ({PY, NEWREF, NULLABLE}, 'calls a Python callable'),
    'PyObject_CallOneArg': ({PY, NEWREF, NULLABLE}, 'calls a Python callable'),
    'PyObject_CallFunctionObjArgs': ({PY, NEWREF, NULLABLE}, 'calls a Python callable'),
    'PyObject_CallMethodObjArgs': ({PY, NEWREF, NULLABLE}, 'calls a Python method'),
    'PyObject_CallMethod': ({PY, NEWREF, NULLABLE}, 'calls a Python method'),
    'PyObject_CallFunction': ({PY, NEWREF, NULLABLE}, 'calls a Python callable'),
    'PyObject_Length': ({PY, RC_FAIL}, 'runs __len__'),
    'PyObject_Size': ({PY, RC_FAIL}, 'runs __len__'),
    'PyObject_LengthHint': ({PY, RC_FAIL}, 'runs __len__ / __length_hint__'),
    'PyObject_GetItem': ({PY, NEWREF, NULLABLE}, 'runs __getitem__'),
    'PyObject_SetItem': ({PY, RC_FAIL}, 'runs __setitem__'),
    'PyObject_Hash': ({PY, RC_FAIL}, 'runs __hash__'),
    'PyObject_IsTrue': ({PY, RC_FAIL}, 'runs __bool__ / __len__'),
    'PyObject_Not': ({PY, RC_FAIL}, 'runs __bool__ / __len__'),
    'PyObject_RichCompare': ({PY, NEWREF, NULLABLE}, 'runs rich comparison'),
    'PyObject_RichCompareBool': ({PY, RC_FAIL}, 'runs rich comparison'),
    'PyObject_Repr': ({PY, NEWREF, NULLABLE}, 'runs __repr__'),
    'PyObject_Str': ({PY, NEWREF, NULLABLE}, 'runs __str__'),
    'PyObject_GetAttrString': ({PY, NEWREF, NULLABLE}, 'attribute lookup'),
    'PyObject_SetAttr': ({PY, RC_FAIL}, 'attribute store'),
    'PyObject_HasAttr': ({PY, SWALLOWS}, 'attribute lookup, errors suppressed'),
    'PyObject_IsInstance': ({PY, RC_FAIL}, 'runs __instancecheck__'),
    'PyObject_IsSubclass': ({PY, RC_FAIL}, 'runs __subclasscheck__'),
    'PySequence_Tuple': ({PY, NEWREF, NULLABLE}, 'iterates an arbitrary iterable'),
    'PySequence_Fast': ({PY, NEWREF, NULLABLE}, 'iterates an arbitrary iterable'),
    'PySequence_GetItem': ({PY, NEWREF, NULLABLE}, 'runs __getitem__'),
    'PySequence_Size': ({PY, RC_FAIL}, 'runs __len__'),
    'PySequence_Length': ({PY, RC_FAIL}, 'runs __len__'),
    'PySequence_Contains': ({PY, RC_FAIL}, 'runs __contains__ / __eq__'),
    'PyMapping_Keys': ({PY, NEWREF, NULLABLE}, 'runs keys()'),
    'PyMapping_Values': ({PY, NEWREF, NULLABLE}, 'runs values()'),
    'PyMapping_Items': ({PY, NEWREF, NULLABLE}, 'runs items()'),
    'PyDict_Copy': ({NEWREF, NULLABLE}, 'new dict in storage order'),
    'PyDict_SetDefault': ({PY, BORROW, NULLABLE, MUTATES}, 'hashes/compares the key'),
    'PyDict_DelItem': ({PY, RC_FAIL, MUTATES}, 'hashes/compares the key'),
    'PyDict_New': ({NEWREF, NULLABLE}, 'allocates'),
    'PyList_New': ({NEWREF, NULLABLE}, 'allocates (slots are NULL)'),
    'PyTuple_New': ({NEWREF, NULLABLE}, 'allocates (slots are NULL)'),
    'PyList_Append': ({RC_FAIL, MUTATES}, 'appends'),
    'PyList_AsTuple': ({NEWREF, NULLABLE}, 'new tuple'),
    'PyList_SetItem': ({STEALS, MUTATES, RC_FAIL}, 'checked store, steals'),
    'PyTuple_SetItem': ({STEALS, MUTATES, RC_FAIL}, 'checked store, steals'),
    'PyTuple_Pack': ({NEWREF, NULLABLE}, 'new tuple'),
    'PyLong_AsSsize_t': ({RC_FAIL}, 'conversion'),
    'PyLong_FromSsize_t': ({NEWREF, NULLABLE}, 'allocates'),
    'PyErr_Fetch': ({ERRCLEAR}, 'takes the pending exception'),
    'PyErr_Restore': (set(), 'sets the error indicator'),
    'PyErr_ExceptionMatches': (set(), 'type test'),
    'PyErr_WarnFormat': ({PY, RC_FAIL}, 'runs the warnings machinery'),
    'PyWeakref_NewRef': ({NEWREF, NULLABLE}, 'allocates a weak reference'),
}

# ---- pybind11 free functions -------------------------------------------------------------------
PYBIND_FREE = {
    'getattr': ({PY, THROWS}, 'attribute lookup'),
    'setattr': ({PY, THROWS}, 'attribute store'),
    'hasattr': ({PY}, 'attribute lookup'),
    'hash': ({PY, THROWS}, 'runs __hash__'),
    'repr': ({PY, THROWS}, 'runs __repr__'),
    'import': ({PY, THROWS}, 'runs the import system'),
    'cast': ({PY, THROWS}, 'type casters may call __bool__/__index__/__iter__/str encode'),
    'exec': ({PY, THROWS}, 'runs code'),
    'isinstance': (set(), 'template form: registered-type check only'),
    'make_tuple': ({THROWS}, 'allocates a tuple; casting py::object arguments is an incref'),
    'reinterpret_borrow': (set(), 'incref'),
    'reinterpret_steal': (set(), 'takes ownership'),
    'handle_of': (set(), 'Py_TYPE'),
    'of': (set(), 'Py_TYPE + incref'),
    'ssize_t_cast': (set(), 'integer cast'),
    'set_error': (set(), 'sets the error indicator'),
    'raise_from': ({PYDEL}, 'chains exceptions'),
    'register_local_exception': ({PY}, 'module init'),
    'pickle': (set(), 'binding helper'),
    'init': (set(), 'binding helper'),
    'visit': (set(), 'gc visit callback (Py_VISIT expansion)'),
    'len': ({PY, THROWS}, 'runs __len__'),
    'len_hint': ({PY}, 'runs __length_hint__'),
    'str': ({PY, THROWS}, 'runs __str__'),
}

PURE_FREE = {
    'move', 'forward', 'make_pair', 'make_shared', 'make_unique', 'back_inserter', 'copy',
    'reverse', 'current_exception', 'rethrow_exception', 'get_id', 'strlen', 'strncmp', 'min',
    'max', 'get', 'swap', 'distance', 'advance', 'next', 'prev', 'begin', 'end', 'size',
    '__assert_fail', 'tie', 'make_optional', 'as_const', 'addressof', 'to_string', 'exchange',
    'find', 'find_if', 'any_of', 'all_of', 'none_of', 'fill', 'sort', 'stable_sort',
    'cache_completed_module', 'ensure_internals', 'get_cached_module', 'init_slots',
    'pybind11_fail', 'abort', 'terminate', 'static_pointer_cast', 'const_pointer_cast',
}


def norm_type(t):
    if not t:
        return ''
    t = t.replace('const ', '').replace(' const', '').replace('pybind11::', 'py::')
    t = re.sub(r'<.*>', '', t)
    t = t.strip(' &*')
    return t


PYOBJ = {'py::object', 'py::handle', 'py::function', 'py::list', 'py::tuple', 'py::dict',
         'py::str', 'py::type', 'py::iterable', 'py::set', 'py::int_', 'py::module_',
         'py::weakref', 'py::cpp_function', 'py::none', 'py::bool_', 'py::iterator',
         'py::sequence', 'py::float_', 'py::bytes', 'py::capsule', 'py::class_', 'py::enum_',
         'py::detail::str_attr_accessor', 'detail::tuple_accessor', 'py::detail::tuple_accessor',
         'detail::list_accessor', 'py::detail::obj_attr_accessor', 'py::detail::item_accessor'}

# member name -> {base class or '*': (effects, reason)}
MEMBERS = {
    'operator()': {
        'py::function': ({PY, THROWS}, 'calls a Python callable'),
        'py::object': ({PY, THROWS}, 'calls a Python callable'),
        'py::handle': ({PY, THROWS}, 'calls a Python callable'),
        'py::type': ({PY, THROWS}, 'calls a Python callable'),
        'py::detail::str_attr_accessor': ({PY, THROWS}, 'getattr + call'),
    },
    'not_equal': {'*py': ({PY, THROWS}, 'rich comparison __ne__/__eq__')},
    'equal': {'*py': ({PY, THROWS}, 'rich comparison __eq__')},
    'contains': {'*py': ({PY, THROWS}, '__contains__')},
    'attr': {'*py': (set(), 'lazy accessor; the lookup happens on use')},
    'doc': {'*py': ({PY}, 'module attribute accessor')},
    'is': {'*py': (set(), 'pointer compare')},
    'is_none': {'*py': (set(), 'pointer compare (tuple accessor: PyTuple_GetItem)')},
    'ptr': {'*py': (set(), 'pointer read')},
    'inc_ref': {'*py': (set(), 'refcount')},
    'dec_ref': {'*py': ({PYDEL}, 'may run a destructor')},
    'release': {'*py': (set(), 'gives up ownership without DECREF')},
    'operator bool': {'*py': (set(), 'pointer null test')},
    'operator basic_string': {'*py': ({THROWS}, 'str -> UTF-8 bytes; exact str/bytes only')},
    'operator object': {'*py': ({THROWS}, 'accessor read: PyTuple_GetItem / PyList_GetItem')},
    'operator=': {
        'py::detail::str_attr_accessor': ({PY, THROWS}, 'setattr'),
        'py::arg': (set(), 'binding helper'),
        '*py': ({PYDEL}, 'releases the previous value'),
    },
    'begin': {
        'py::list': (set(), 'index iterator'), 'py::tuple': (set(), 'index iterator'),
        'py::iterable': ({PY, THROWS}, 'PyObject_GetIter'), 'py::object': ({PY, THROWS}, 'PyObject_GetIter'),
        'py::handle': ({PY, THROWS}, 'PyObject_GetIter'), 'py::dict': (set(), 'PyDict_Next iterator'),
    },
    'end': {'*py': (set(), 'sentinel')},
    'size': {'py::tuple': (set(), 'PyTuple_Size'), 'py::list': (set(), 'PyList_Size'),
             'py::dict': (set(), 'PyDict_Size')},
    'matches': {'py::error_already_set': (set(), 'PyErr_GivenExceptionMatches on exception classes')},
    'what': {'*': ({PY}, 'error_already_set::what formats the Python error lazily')},
    'call_once_and_store_result': {'*': ({ONCE}, 'one-time initialiser')},
    'get_stored': {'*': (set(), 'reads the stored value')},
    'def': {'*': ({PY}, 'binding construction (module init only)')},
    'def_property_readonly': {'*': ({PY}, 'binding construction')},
    'value': {'py::enum_': ({PY}, 'binding construction')},
    'get_value_and_holder': {'*': (set(), 'instance layout read')},
    'holder_constructed': {'*': (set(), 'flag read')},
    'data': {'*': (set(), 'pointer read')},
}

ITER_OPS = {
    # pybind11::iterator drives PyIter_Next from ++ and from the comparisons / dereference that
    # lazily advance
    ('operator++', 'py::iterator'): ({PY, THROWS}, 'PyIter_Next runs __next__'),
    ('operator!=', 'py::iterator'): ({PY, THROWS}, 'compares current items; lazily advances'),
    ('operator==', 'py::iterator'): ({PY, THROWS}, 'compares current items; lazily advances'),
    ('operator*', 'py::iterator'): ({PY, THROWS}, 'lazily advances'),
    ('operator-', 'py::set'): ({PY, THROWS}, 'set difference: hashes/compares elements'),
}

# constructors: class -> list of (ctorType regex, effects, reason); first match wins
CTORS = {
    'py::list': [(r'\((const )?(py|pybind11)::(object|handle|set|iterable|tuple|dict)', {PY, THROWS},
                  'PySequence_List over an arbitrary iterable'),
                 (r'.*', {THROWS}, 'allocates a list of the given size')],
    'py::tuple': [(r'\((const )?(py|pybind11)::(object|handle|list|iterable)', {PY, THROWS},
                   'PySequence_Tuple over an arbitrary iterable'),
                  (r'.*', {THROWS}, 'allocates')],
    'py::set': [(r'.*', {PY, THROWS}, 'PySet_New hashes the elements')],
    'py::dict': [(r'\(\)', {THROWS}, 'empty dict'),
                 (r'.*', {PY, THROWS}, 'dict from kwargs/object')],
    'py::str': [(r'\((const )?(py|pybind11)::(object|handle)', {PY, THROWS}, 'PyObject_Str'),
                (r'.*', {THROWS}, 'from C string')],
    'py::int_': [(r'\((const )?(py|pybind11)::(object|handle)', {PY, THROWS}, 'PyNumber_Long'),
                 (r'.*', {THROWS}, 'from integer')],
    'py::bool_': [(r'.*', set(), 'from bool')],
    'py::none': [(r'.*', set(), 'None')],
    'py::weakref': [(r'.*', {THROWS}, 'allocates a weak reference (GC-tracked)')],
    'py::cpp_function': [(r'.*', {THROWS}, 'allocates a function object (GC-tracked)')],
    'py::object': [(r'.*', set(), 'copy/move: refcount only')],
    'py::handle': [(r'.*', set(), 'pointer wrap')],
    'py::function': [(r'.*', set(), 'copy/move')],
    'py::type': [(r'.*', set(), 'copy/move')],
    'py::iterable': [(r'.*', set(), 'copy/move')],
    'py::module_': [(r'.*', set(), 'copy/move')],
    'py::error_already_set': [(r'.*', set(), 'fetches the pending error')],
    'py::value_error': [(r'.*', set(), 'C++ exception object')],
    'py::type_error': [(r'.*', set(), 'C++ exception object')],
    'py::index_error': [(r'.*', set(), 'C++ exception object')],
    'py::stop_iteration': [(r'.*', set(), 'C++ exception object')],
}


def call_name_base(n):
    """(name, normalised base type, kind) for a call-like node."""
    if n.kind in CTOR_KINDS:
        return ('<ctor>', norm_type(n.type), 'ctor')
    nm = n.callee_name()
    base = None
    c = n.kids[0] if n.kids else None
    if n.kind == 'CXXMemberCallExpr' and c is not None and c.kind == 'MemberExpr' and c.kids \
            and c.kids[0] is not None:
        base = norm_type(c.kids[0].type)
    elif n.kind == 'CXXOperatorCallExpr' and len(n.kids) > 1 and n.kids[1] is not None:
        base = norm_type(n.kids[1].type)
    return (nm, base, 'member' if base is not None else 'free')


def _is_py_type(base):
    if not base:
        return False
    b = base.replace('optree::', '')
    return b in PYOBJ or b.startswith('py::') or b.startswith('detail::tuple_accessor') \
        or b.startswith('detail::list_')


def external_effects(n):
    """(effects set, reason) for a call to a function not defined in the repo."""
    nm, base, kind = call_name_base(n)
    if kind == 'ctor':
        rows = CTORS.get(base)
        ct = (n.x or {}).get('ctorType') or ''
        if rows:
            for rx, eff, why in rows:
                if re.search(rx, ct):
                    return set(eff), why
        return set(), 'constructor of %s' % base
    if nm is None:
        return set(), 'indirect call'
    if kind == 'free':
        if nm in CAPI:
            e, why = CAPI[nm]
            return set(e), why
        if nm in PYBIND_FREE:
            e, why = PYBIND_FREE[nm]
            return set(e), why
        if nm in PURE_FREE or nm.startswith('operator') or nm.startswith('__'):
            return set(), 'libstdc++ / helper'
        if nm.startswith('Py') or nm.startswith('_Py'):
            return {UNKNOWN}, 'unclassified C-API name %s' % nm
        return set(), 'free function %s (not a C-API / pybind11 name)' % nm
    # member / operator
    if (nm, base) in ITER_OPS:
        e, why = ITER_OPS[(nm, base)]
        return set(e), why
    rows = MEMBERS.get(nm)
    if rows:
        if base in rows:
            e, why = rows[base]
            return set(e), why
        if '*py' in rows and _is_py_type(base):
            e, why = rows['*py']
            return set(e), why
        if '*' in rows:
            e, why = rows['*']
            return set(e), why
    if _is_py_type(base) and nm not in ('operator->', 'operator*', 'operator[]', 'operator!=',
                                       'operator==', 'operator++', 'cast', 'size', 'empty'):
        if nm == 'cast':
            return {PY, THROWS}, 'object::cast<T>'
        return {UNKNOWN}, 'unclassified pybind11 member %s on %s' % (nm, base)
    if nm == 'cast' and _is_py_type(base):
        return {PY, THROWS}, 'object::cast<T>'
    return set(), 'libstdc++ member %s on %s' % (nm, base)


class Effects:
    """Interprocedural summaries over a Program."""

    def __init__(self, prog):
        self.prog = prog
        self.summary = {}
        self._compute()

    def direct_calls(self, func):
        """yield (node, target Func or None) for every call-like node of func (own body only)."""
        roots = [r for r in [func.body] + list(func.inits) if r is not None]
        for root in roots:
            for n in root.walk():
                if n.kind in CALL_KINDS:
                    yield n, self.prog.target(func, n)
                elif n.kind in CTOR_KINDS:
                    k = (n.x or {}).get('ctor_key')
                    yield n, self.prog.funcs.get(k) if k else None

    def once_lambdas(self, func, n):
        """lambda Funcs passed to a call_once_and_store_result call node n."""
        out = []
        for a in n.call_args():
            if a is None:
                continue
            for l in a.find('LambdaExpr'):
                lf = self.prog.lambda_func(func, l)
                if lf is not None:
                    out.append(lf)
        return out

    def _compute(self):
        prog = self.prog
        funcs = [f for f in prog.funcs.values() if not f.dependent]
        summ = {f.key: set() for f in funcs}
        local = {}
        edges = {}
        for f in funcs:
            loc = set()
            outs = set()
            for n, tgt in self.direct_calls(f):
                if tgt is not None:
                    outs.add(tgt.key)
                else:
                    e, _ = external_effects(n)
                    loc |= (e & {PY, PYDEL, ONCE, UNKNOWN})
            local[f.key] = loc
            edges[f.key] = outs
        for k in summ:
            summ[k] = set(local[k])
        changed = True
        while changed:
            changed = False
            for k in summ:
                for c in edges[k]:
                    add = summ.get(c, set()) - summ[k]
                    if add:
                        summ[k] |= add
                        changed = True
        self.summary = summ

    def of_call(self, func, n):
        """(effects, reason, target) of one call-like node inside func."""
        if n.kind in CALL_KINDS:
            tgt = self.prog.target(func, n)
        elif n.kind in CTOR_KINDS:
            k = (n.x or {}).get('ctor_key')
            tgt = self.prog.funcs.get(k) if k else None
        else:
            return set(), '', None
        if tgt is not None:
            return set(self.summary.get(tgt.key, set())), 'repo function %s' % tgt.label, tgt
        # declared in the repo but defined nowhere we parsed?
        k = self.prog.resolve(func, n.callee_ref()) if n.kind in CALL_KINDS else None
        if k is not None and not isinstance(k, tuple):
            pass
        e, why = external_effects(n)
        return e, why, None

    def effects_in(self, func, root):
        """Union of effects of all calls under AST `root` (own function, not entering lambdas),
        as list of (node, effects, reason, target)."""
        out = []
        for n in root.walk():
            if n.kind in CALL_KINDS or n.kind in CTOR_KINDS:
                e, why, tgt = self.of_call(func, n)
                if e:
                    out.append((n, e, why, tgt))
        return out
