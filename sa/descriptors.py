"""Per-kind arm descriptors of the traversal functions.

For a function with a switch over PyTreeKind, each kind's arm (specialised on that kind: inner
`if (kind == X)` / `kind != X ? a : b` are resolved) is reduced to a small descriptor: where the
arity comes from, how children are enumerated (accessor, container class, loop direction), the
dict-key pipeline, the path entry, the shape of the stored metadata and the validations."""
from __future__ import annotations

import re

from .cxx_ir import CALL_KINDS, CTOR_KINDS, LOOP_KINDS, Node
from .cfg import switch_arms, const_eval
from .rules.common import (member_path, strip_casts, calls_in, kind_switches, thrown_type,
                           ALL_KINDS)

ENUM_NAMES = set(ALL_KINDS)


def _kind_test(e, subject=None):
    """(enumerator, is_equal) if e compares a `.kind` / `kind` value with a PyTreeKind enumerator"""
    if e is None or e.kind != 'BinaryOperator' or e.op not in ('==', '!='):
        return None
    l, r = e.kids
    lp, rp = member_path(l), member_path(r)
    en = None
    other = None
    on = None
    if rp in ENUM_NAMES and r.kind == 'DeclRefExpr' and (r.ref or {}).get('kind') == 'EnumConstantDecl':
        en, other, on = rp, lp, l
    elif lp in ENUM_NAMES and l.kind == 'DeclRefExpr' and (l.ref or {}).get('kind') == 'EnumConstantDecl':
        en, other, on = lp, rp, r
    if en is None or other is None:
        return None
    # the other operand is a PyTreeKind value: the `kind` field of a node / registration, or a
    # local that holds one (whatever it is called)
    ot = strip_casts(on)
    tt = ((ot.type or '') + ' ' + ((ot.x or {}).get('desugared', '') or '')) if ot is not None else ''
    if other.split('.')[-1] != 'kind' and 'PyTreeKind' not in tt:
        return None
    if subject is not None and other != subject:
        return None
    return en, e.op == '=='


def eval_kind_cond(e, kind, subject=None):
    """truth of a condition under `node.kind == kind`, or None when it does not depend on it alone"""
    v = const_eval(e)
    if v is not None:
        return bool(v)
    t = _kind_test(e, subject)
    if t is not None:
        en, eq = t
        return (en == kind) == eq
    if e is not None and e.kind == 'BinaryOperator' and e.op in ('&&', '||'):
        a, b = eval_kind_cond(e.kids[0], kind, subject), eval_kind_cond(e.kids[1], kind, subject)
        if e.op == '&&':
            if a is False or b is False:
                return False
            if a is True and b is True:
                return True
        else:
            if a is True or b is True:
                return True
            if a is False and b is False:
                return False
    if e is not None and e.kind == 'UnaryOperator' and e.op == '!':
        a = eval_kind_cond(e.kids[0], kind, subject)
        return None if a is None else (not a)
    return None


def kind_edge_filter(cfg, kind, subject):
    """skip_edges callable for CFG.reachable_from: drops the edges that cannot be taken while
    `<subject>` (a path like 'node.kind') equals `kind`: arms of a switch over the subject that
    are labelled with another enumerator, and the refuted branch of every condition decided by
    the kind alone."""
    named = {}

    def skip(v, w, lab):
        cn = cfg.nodes[v]
        if cn.kind != 'cond' or cn.ast is None:
            return False
        if isinstance(lab, str) and lab.startswith('case:'):
            if member_path(strip_casts(cn.ast)) != subject:
                return False
            if v not in named:
                named[v] = {l[5:] for (_, l) in cfg.succ[v] if isinstance(l, str) and l.startswith('case:')}
            l = lab[5:]
            if l in ('default', '<none>'):
                return kind in named[v]
            return l != kind
        if lab is True or lab is False:
            val = eval_kind_cond(cn.ast, kind, subject)
            if val is not None:
                return val != lab
        return False
    return skip



def specialise_expr(e, kind, subject=None):
    """resolve `kind-test ? a : b` inside an expression"""
    if e is None:
        return None
    if e.kind == 'ConditionalOperator':
        v = eval_kind_cond(e.kids[0], kind, subject)
        if v is True:
            return specialise_expr(e.kids[1], kind, subject)
        if v is False:
            return specialise_expr(e.kids[2], kind, subject)
    return e


class Events(list):
    pass


PACK_SEP = ' ;; '


def pack_classes(cs):
    return 'PACK{' + PACK_SEP.join(cs) + '}'


def unpack_classes(c):
    if isinstance(c, str) and c.startswith('PACK{') and c.endswith('}'):
        return c[5:-1].split(PACK_SEP)
    return None


class ArmWalker:
    """Walks the statements of one arm in source order and records events."""

    def __init__(self, prog, func, kind, self_names, subject=None):
        self.subject = subject
        self.prog = prog
        self.func = func
        self.kind = kind
        self.self_names = set(self_names)   # expressions that denote the visited object
        self.alias = {}                     # local -> class
        self.events = []
        self.guards = []                    # stack of textual guards (non-kind conditions)
        self.loop = []                      # stack of (direction, over)
        self.dead = False                   # the arm has ended on this path (break/return/throw)
        self.array_inits = {}               # local raw array -> its InitListExpr
        self.inlined = {}                   # id(call) -> class of the value the inlined callee returns
        self.inline_depth = 0
        self.ret_stack = []                 # return classes collected while inlining
        self.param_exprs = []               # per inlined frame: parameter -> argument expression
        self.frames = []                    # (inlined callee, its aliases when it returned)
        self.guard_neg = {}                 # guard text -> text of the complementary guard

    # -- classification of container expressions ------------------------------------------------
    def cls_of(self, e, depth=0):
        e = specialise_expr(strip_casts(e), self.kind, self.subject)
        if e is None or depth > 6:
            return 'UNKNOWN'
        if e.kind in CTOR_KINDS and len(e.kids) == 1:
            return self.cls_of(e.kids[0], depth + 1)
        if (e.kind in CTOR_KINDS or e.kind == 'InitListExpr') and len(e.kids) >= 2 and \
                re.match(r'(const )?std::(pair|tuple)<', e.type or ''):
            # a helper that hands back several values at once: the class of each component
            return pack_classes([self.cls_of(k, depth + 1) for k in e.kids])
        if e.kind == 'MemberExpr' and e.name in ('first', 'second') and e.kids and e.kids[0] is not None:
            comps = unpack_classes(self.cls_of(e.kids[0], depth + 1))
            if comps is not None and len(comps) == 2:
                return comps[0 if e.name == 'first' else 1]
        p = member_path(e)
        if e.kind in ('DeclRefExpr',) and p is not None:
            if p in self.self_names:
                return 'SELF'
            if p in self.alias:
                return self.alias[p]
            return 'LOCAL:' + p
        if e.kind == 'MemberExpr':
            last = e.name
            if p in self.alias:
                return self.alias[p]
            if last in ('node_data', 'node_entries', 'original_keys'):
                return 'SPEC.' + last
            return 'MEMBER:' + (p or last)
        if e.kind in CALL_KINDS:
            nm = e.callee_name()
            a = e.call_args()
            if nm == 'reinterpret_borrow':
                return self.cls_of(a[0], depth + 1)
            if nm in ('thread_safe_cast', 'cast'):
                inner = self.cls_of(a[0], depth + 1)
                t = (e.type or '').replace('pybind11::', 'py::')
                if inner == 'SELF' and ('list' in t or 'tuple' in t) and '&' not in t:
                    return 'COPY'
                if inner.startswith('OUT'):
                    return inner
                return inner
            if nm in ('TupleGetItem', 'TupleGetItemAs', 'ListGetItem', 'ListGetItemAs'):
                inner = self.cls_of(a[0], depth + 1)
                idx = const_eval(a[1]) if len(a) > 1 else None
                if inner == 'OUT':
                    return 'OUT%s' % (idx if idx is not None else '?')
                if inner.startswith('SPEC.'):
                    return '%s[%s]' % (inner, idx if idx is not None else 'i')
                return '%s[%s]' % (inner, idx if idx is not None else 'i')
            if nm in ('DictKeys', 'SortedDictKeys'):
                return 'KEYS(%s)' % self.cls_of(a[0], depth + 1)
            if nm in ('first', 'second'):
                return self.cls_of(a[0], depth + 1) if a else 'UNKNOWN'
            if nm in ('DictGetItem', 'DictGetItemAs'):
                return '%s[key]' % self.cls_of(a[0], depth + 1)
            if nm in ('TupleGetSize', 'ListGetSize', 'DictGetSize'):
                return 'len(%s)' % self.cls_of(a[0], depth + 1)
            if nm == 'operator()':
                if e.kind == 'CXXOperatorCallExpr' and len(e.kids) >= 2 and \
                        'lambda' in (e.kids[1].type or ''):
                    r = self.inline(e)
                    if r is not None:
                        return r
                # flatten_func(handle) result, getattr(x, copy)()
                txt = e.text(5)
                if 'flatten_func' in txt and 'unflatten_func' not in txt:
                    return 'OUT'
                if 'Py_ID_copy' in txt:
                    callee = e.kids[1]
                    for c in calls_in(callee, {'getattr'}):
                        return 'COPYOF(%s)' % self.cls_of(c.call_args()[0], depth + 1)
                return 'CALLRESULT'
            if nm == 'move':
                return self.cls_of(a[0], depth + 1)
            if nm == 'getattr':
                names = [x.callee_name()[6:] for x in calls_in(e) if (x.callee_name() or '').startswith('Py_ID_')]
                return 'ATTR(%s,%s)' % (self.cls_of(a[0], depth + 1), names[0] if names else '?')
            if nm in ('of', 'handle_of'):
                return 'TYPEOF(%s)' % self.cls_of(a[0], depth + 1)
            if nm == 'make_tuple':
                return 'TUPLE[%s]' % ','.join(self.cls_of(x, depth + 1) for x in a)
            r = self.inline(e)
            if r is not None:
                return r
        return 'UNKNOWN'

    # -- small helpers / local lambdas are looked through -----------------------------------------
    NO_INLINE = {'GetKind', 'TotalOrderSort', 'DictKeys', 'SortedDictKeys', 'PyRepr', 'GetType',
                 'GetPathEntryType', 'MakeNode', 'IsDictInsertionOrdered', 'Lookup'}

    def _lambda_of(self, callee_expr):
        """Func of the local lambda a call goes to, or None"""
        name = member_path(strip_casts(callee_expr)) if callee_expr is not None else None
        if not name or self.func.body is None:
            return None
        owner = self.func
        for v in owner.body.walk(into_lambdas=True):
            if v.kind == 'VarDecl' and v.name == name and v.kids and v.kids[-1] is not None:
                for l in v.kids[-1].walk(into_lambdas=False):
                    if l.kind == 'LambdaExpr':
                        return self.prog.lambda_func(owner, l)
        return None

    def _is_visitor(self, lam):
        """the lambda recurses into the traversal it belongs to (it visits a child)"""
        if lam is None or lam.body is None:
            return False
        owner = self.prog.funcs.get(lam.parent)
        for c in calls_in(lam.body):
            t = self.prog.target(lam, c) if c.kind in CALL_KINDS else None
            if t is not None and owner is not None and t.qualname == owner.qualname:
                return True
        return False

    def _subst_param(self, cond):
        """inside an inlined helper, a condition that is just a (bool) parameter stands for the
        argument expression of the call (so that `if (should_sort)` is decided per kind)"""
        if not self.param_exprs or cond is None:
            return cond
        c = strip_casts(cond)
        if c is not None and c.kind == 'DeclRefExpr':
            nm = (c.ref or {}).get('name')
            if nm in self.param_exprs[-1]:
                return self.param_exprs[-1][nm]
        return cond

    def inline(self, call):
        """walk the body of a small repo helper / local lambda with its parameters bound to the
        classes of the arguments; events are recorded in place; returns the class of the returned
        value (None when the call is not inlined)"""
        if id(call) in self.inlined:
            return self.inlined[id(call)]
        if self.inline_depth >= 2:
            return None
        callee = None
        args = call.call_args()
        if call.kind == 'CXXOperatorCallExpr' and call.callee_name() == 'operator()' and len(call.kids) >= 2:
            lam = self._lambda_of(call.kids[1])
            if lam is not None and not self._is_visitor(lam):
                callee = lam
                args = call.kids[2:]
        elif call.kind in CALL_KINDS and call.callee_name() not in self.NO_INLINE:
            t = self.prog.target(self.func, call)
            if t is not None and t.body is not None and not t.dependent and t.qualname != self.func.qualname:
                callee = t
        if callee is None or callee.body is None:
            return None
        if sum(1 for _ in callee.body.walk()) > 400:
            return None
        pnames = [p_[0] for p_ in callee.params]
        bound = {}
        selfs = set()
        for pn, a in zip(pnames, args):
            if pn and a is not None:
                c = self.cls_of(a)
                bound[pn] = c
                if c == 'SELF':
                    selfs.add(pn)
        saved = (self.alias, self.self_names, self.func, self.dead, self.loop)
        # a lambda sees the enclosing aliases (captures); a free helper only its parameters
        self.alias = dict(self.alias, **bound) if callee.is_lambda else dict(bound)
        self.self_names = (set(self.self_names) if callee.is_lambda else set()) | selfs
        for pn in bound:
            if pn not in selfs:
                self.self_names.discard(pn)
        self.func = callee if not callee.is_lambda else self.func
        self.dead = False
        self.inline_depth += 1
        self.ret_stack.append([])
        self.param_exprs.append({pn: a for pn, a in zip(pnames, args) if pn and a is not None})
        try:
            self.stmt(callee.body)
        finally:
            self.param_exprs.pop()
            rets = self.ret_stack.pop()
            self.inline_depth -= 1
            out_alias = self.alias
            self.frames.append((callee, dict(out_alias)))
            self.alias, self.self_names, self.func, self.dead, self.loop = saved
            if callee.is_lambda:
                # assignments to captured variables are visible afterwards
                for k_, v_ in out_alias.items():
                    if k_ not in bound and (k_ in self.alias or '.' in k_):
                        self.alias[k_] = v_
        vals = [r for r in rets if r is not None]
        res = vals[0] if vals and all(v == vals[0] for v in vals) else ('CALLRESULT' if not vals else 'UNKNOWN')
        self.inlined[id(call)] = res
        return res

    # -- statement walk ------------------------------------------------------------------------
    def walk(self, stmts):
        for s in stmts:
            if self.dead:
                return
            self.stmt(s)

    def stmt(self, s):
        if s is None:
            return
        k = s.kind
        if k == 'CompoundStmt':
            self.walk(s.kids)
            return
        if k == 'BreakStmt':
            if not self.loop:
                self.dead = True
            return
        if k in ('NullStmt', 'ContinueStmt'):
            return
        if k == 'DeclStmt':
            for v in s.kids:
                if v is not None and v.kind == 'VarDecl':
                    self.vardecl(v)
                elif v is not None and v.kind == 'DecompositionDecl':
                    # `auto [a, b] = helper(...)`: each name stands for its component
                    binds = [b for b in v.kids if b is not None and b.kind == 'BindingDecl']
                    inits = [b for b in v.kids if b is not None and b.kind != 'BindingDecl']
                    if inits:
                        comps = unpack_classes(self.cls_of(inits[0]))
                        self.expr(inits[0])
                        for i, b in enumerate(binds):
                            if b.name:
                                self.alias[b.name] = comps[i] if comps is not None and i < len(comps) else 'UNKNOWN'
            return
        if k == 'IfStmt':
            kids = list(s.kids)
            x = s.x or {}
            if x.get('hasInit'):
                self.stmt(kids.pop(0))
            if x.get('hasVar'):
                self.stmt(kids.pop(0))
            cond, then = kids[0], (kids[1] if len(kids) > 1 else None)
            els = kids[2] if len(kids) > 2 else None
            cond = self._subst_param(cond)
            v = eval_kind_cond(cond, self.kind, self.subject)
            if v is True:
                self.stmt(then)
            elif v is False:
                self.stmt(els)
            else:
                self.expr(cond)
                # validation: a branch that only throws
                deads = []
                early = []
                for br, pol in ((then, True), (els, False)):
                    if br is None:
                        deads.append(False)
                        continue
                    th = [t for t in br.walk() if t.kind == 'CXXThrowExpr']
                    if th and _only_throws(br):
                        self.events.append(('validate', norm_cond(cond, pol, self), thrown_type(th[0]), s))
                        deads.append(True)
                    elif _only_returns_false(br):
                        self.events.append(('validate', norm_cond(cond, pol, self), 'return-false', s))
                        deads.append(True)
                    else:
                        self.guards.append((norm_cond(cond, pol, self), cond, pol))
                        self.guard_neg[norm_cond(cond, pol, self)] = norm_cond(cond, not pol, self)
                        self.guard_neg[norm_cond(cond, not pol, self)] = norm_cond(cond, pol, self)
                        saved = self.dead
                        self.stmt(br)
                        deads.append(self.dead)
                        if self.dead and not saved:
                            early.append((norm_cond(cond, not pol, self), cond, not pol))
                        self.dead = saved
                        self.guards.pop()
                if all(deads) and len(deads) == 2:
                    self.dead = True
                # what follows an early exit runs under the negated condition
                for g in early:
                    self.guards.append(g)
            return
        if k == 'ForStmt':
            init, condvar, cond, inc, body = (s.kids + [None] * 5)[:5]
            d = loop_direction(init, cond, inc)
            self.loop.append((d, None))
            self.events.append(('loop', d, None, s))
            self.stmt(body)
            self.events.append(('endloop',))
            self.loop.pop()
            return
        if k == 'CXXForRangeStmt':
            kids = (s.kids + [None] * 8)[:8]
            rng, loopvar, body = kids[1], kids[6], kids[7]
            over = 'UNKNOWN'
            if rng is not None:
                for v in rng.find('VarDecl'):
                    if v.kids and v.kids[-1] is not None:
                        over = self.cls_of(v.kids[-1])
            lv = None
            if loopvar is not None:
                for v in loopvar.find('VarDecl'):
                    lv = v.name
            if lv:
                self.alias[lv] = 'ITEM(%s)' % over
            self.loop.append(('ITER', over))
            self.events.append(('loop', 'ITER', over, s))
            self.stmt(body)
            self.events.append(('endloop',))
            self.loop.pop()
            return
        if k in ('WhileStmt', 'DoStmt'):
            self.events.append(('loop', 'WHILE', None, s))
            self.stmt(s.kids[-1] if k == 'WhileStmt' else s.kids[0])
            self.events.append(('endloop',))
            return
        if k == 'ReturnStmt':
            if self.ret_stack:
                # return of an inlined helper: its value is the value of the call
                v = s.kids[0] if s.kids else None
                if v is not None:
                    self.ret_stack[-1].append(self.cls_of(v))
                    self.expr(v)
                else:
                    self.ret_stack[-1].append(None)
                self.dead = True
                return
            if s.kids and s.kids[0] is not None:
                self.expr(s.kids[0])
            self.events.append(('return', s))
            self.dead = True
            return
        if k == 'CXXThrowExpr':
            self.events.append(('throw', thrown_type(s), s))
            self.dead = True
            return
        if k in ('SwitchStmt', 'CXXTryStmt'):
            for c in s.kids:
                self.stmt(c)
            return
        self.expr(s)

    def vardecl(self, v):
        init = v.kids[-1] if v.kids else None
        if init is None:
            return
        init = specialise_expr(init, self.kind, self.subject)
        if init.kind == 'InitListExpr':
            self.array_inits[v.name] = init
        c = self.cls_of(init)
        self.alias[v.name] = c
        self.expr(init, target=('local', v.name))

    def expr(self, e, target=None):
        """record the events of one full expression"""
        e = specialise_expr(e, self.kind, self.subject)
        if e is None:
            return
        # assignments
        lhs = rhs = None
        if e.kind == 'BinaryOperator' and e.op == '=':
            lhs, rhs = e.kids
        elif e.kind == 'CXXOperatorCallExpr' and e.callee_name() == 'operator=' and len(e.kids) == 3:
            lhs, rhs = e.kids[1], e.kids[2]
        if lhs is not None:
            rhs = specialise_expr(rhs, self.kind, self.subject)
            p = member_path(lhs) or ''
            last = p.split('.')[-1]
            c = self.cls_of(rhs)
            if last == 'arity' or p == 'arity':
                self.events.append(('arity', self.size_src(rhs), e))
                if lhs.kind == 'DeclRefExpr':
                    self.alias[p] = c
            elif last in ('node_data', 'node_entries', 'original_keys') and lhs.kind == 'MemberExpr':
                self.events.append(('store', last, c, e))
                self.alias[p] = c
            elif lhs.kind == 'DeclRefExpr':
                if not (self.alias.get(p, '').startswith('OUT') and c in ('UNKNOWN', 'CALLRESULT')):
                    self.alias[p] = c
            self.expr(rhs)
            return
        if e.kind == 'UnaryOperator' and e.op in ('++', '--'):
            p = member_path(e.kids[0]) or ''
            if p.split('.')[-1] == 'arity':
                self.events.append(('arity', 'COUNTED', e))
                if '.' not in p:
                    self.alias[p] = 'COUNTED'
            elif p and '.' not in p and self.loop and self.loop[-1][0] == 'ITER':
                self.alias[p] = 'COUNTED'
            return
        for u in e.walk():
            if u.kind == 'UnaryOperator' and u.op == '++':
                q = member_path(u.kids[0]) or ''
                if q and '.' not in q and self.loop and self.loop[-1][0] == 'ITER':
                    self.alias[q] = 'COUNTED'
        if target:
            ss = self.size_src(e)
            # a local that holds the number of children: the size of the visited container, of
            # its private copy, or of the children element of a custom flatten result
            m = re.fullmatch(r'(TupleGetSize|ListGetSize|DictGetSize)\((.*)\)', ss or '')
            if m and m.group(2) not in ('UNKNOWN', 'OUT', 'OUT2') and not m.group(2).startswith('LOCAL:'):
                self.events.append(('arity', ss, e))
        # calls of interest inside the expression, in evaluation (post) order
        for c in _post_calls(e):
            nm = c.callee_name()
            a = c.call_args()
            if nm in ('TupleGetItem', 'ListGetItem', 'DictGetItem', 'TupleGetItemAs', 'ListGetItemAs',
                      'DictGetItemAs') and self.loop:
                cont = self.cls_of(a[0])
                idx = a[1] if len(a) > 1 else None
                self.events.append(('child-read', nm.replace('As', ''), cont,
                                    index_kind(idx, self), c))
            elif nm == 'TotalOrderSort':
                self.events.append(('sort', self.cls_of(a[0]), [g[0] for g in self.guards], c))
                extra = [x for x in a[1:] if x is not None and x.kind != 'CXXDefaultArgExpr']
                if extra:
                    # TotalOrderSort(keys, reverse): sort + reverse when the flag is literally true
                    # (T2 certifies that the callee honours the flag on every path); anything else
                    # is a conditional reverse
                    v = const_eval(extra[0])
                    if v:
                        self.events.append(('reverse', self.cls_of(a[0]), c, [g[0] for g in self.guards]))
                    elif v is None:
                        self.events.append(('reverse', self.cls_of(a[0]), c,
                                            [g[0] for g in self.guards] + ['<flag %s>' % extra[0].text(3)]))
            elif nm == 'PyList_Reverse':
                x = a[0]
                if x.kind == 'CXXMemberCallExpr' and x.callee_name() == 'ptr':
                    x = x.call_base()
                self.events.append(('reverse', self.cls_of(x), c, [g[0] for g in self.guards]))
            elif nm in ('DictKeys', 'SortedDictKeys'):
                self.events.append(('keys', 'DictKeys', self.cls_of(a[0]), c))
                if nm == 'SortedDictKeys':
                    self.events.append(('sort', 'KEYS(%s)' % self.cls_of(a[0]),
                                        [g[0] for g in self.guards], c))
            elif nm == 'reverse' and len(a) == 2 and any(
                    m.kind in ('MemberExpr', 'DeclRefExpr') and
                    _is_object_vector(_container_type(self.prog, self.func, m)) for m in c.walk()):
                self.events.append(('reverse-pushed', c))
            elif nm == 'operator()' and c.kind == 'CXXOperatorCallExpr':
                callee = c.kids[1]
                cp = member_path(callee) or ''
                lam = self._lambda_of(callee) if callee is not None and 'lambda' in (callee.type or '') else None
                if lam is not None and not self._is_visitor(lam):
                    self.inline(c)          # a helper lambda: looked through
                elif cp == 'recurse' or (callee is not None and 'lambda' in (callee.type or '')):
                    args = c.kids[2:]
                    ent = entry_kind(args[1], self) if len(args) >= 2 else None
                    src = self.cls_of(args[0]) if args else None
                    self.events.append(('visit', src, ent, c))
                elif 'unflatten_func' in c.text(4):
                    self.events.append(('call-unflatten', [self.cls_of(x) for x in c.kids[2:]], c))
                elif 'flatten_func' in c.text(4):
                    self.events.append(('call-flatten', c))
                else:
                    self.events.append(('pycall', self.cls_of(callee), [self.arg_desc(x) for x in c.kids[2:]], c))
            elif nm in ('PyObject_Vectorcall', 'PyObject_CallFunctionObjArgs', 'PyObject_Call') and a and \
                    'unflatten_func' in a[0].text(5):
                # C-API spelling of unflatten_func(node_data, children)
                def unptr(x):
                    x = strip_casts(x)
                    while x is not None and x.kind == 'CXXMemberCallExpr' and x.callee_name() in ('ptr', 'release'):
                        x = strip_casts(x.call_base())
                    return x
                argv = []
                if nm == 'PyObject_Vectorcall' and len(a) > 1:
                    arr = member_path(strip_casts(a[1]))
                    init = self.array_inits.get(arr)
                    if init is not None:
                        argv = [self.cls_of(unptr(k)) for k in init.kids if k is not None]
                else:
                    argv = [self.cls_of(unptr(x)) for x in a[1:]]
                self.events.append(('call-unflatten', argv, c))
            elif nm == 'emplace_back' and c.kind == 'CXXMemberCallExpr':
                if is_worklist_push(self.prog, self.func, c):
                    self.events.append(('visit', self.cls_of(a[0]) if a else None, None, c))
            elif nm in ('AssertExactList', 'AssertExactTuple', 'AssertExactDict', 'AssertExactDeque',
                        'AssertExactNamedTuple', 'AssertExactStructSequence', 'AssertExactStandardDict',
                        'AssertExactOrderedDict', 'AssertExactDefaultDict'):
                self.events.append(('validate', 'type-is-' + nm[len('AssertExact'):], 'value_error', c))
            elif nm in ('DictKeysEqual',):
                self.events.append(('keyset', [self.cls_of(x) for x in a], c))
            elif c.kind in CALL_KINDS and nm not in self.NO_INLINE and \
                    nm not in ('TupleGetSize', 'ListGetSize', 'DictGetSize', 'reinterpret_borrow',
                               'thread_safe_cast', 'cast', 'move', 'getattr', 'make_tuple', 'of', 'handle_of'):
                self.inline(c)

    def arg_desc(self, x):
        if x is None:
            return None
        if x.kind == 'CXXOperatorCallExpr' and x.callee_name() == 'operator=':
            # py::arg("name") = value
            nm = None
            for s in x.walk():
                if s.kind == 'StringLiteral':
                    nm = str(s.value).strip('"')
                    break
            return 'kw:%s=%s' % (nm, self.cls_of(x.kids[2]))
        if x.kind == 'UnaryOperator' and x.op == '*':
            return '*' + self.cls_of(x.kids[0])
        if x.kind == 'CXXMemberCallExpr' and x.callee_name() == 'operator*':
            return '*' + self.cls_of(x.call_base())
        if x.kind == 'CXXOperatorCallExpr' and x.callee_name() == 'operator*' and len(x.kids) == 2:
            return '*' + self.cls_of(x.kids[1])
        return self.cls_of(x)

    def size_src(self, e):
        e = strip_casts(e)
        if e is not None and e.kind in CALL_KINDS and e.callee_name() in (
                'TupleGetSize', 'ListGetSize', 'DictGetSize'):
            return '%s(%s)' % (e.callee_name(), self.cls_of(e.call_args()[0]))
        v = const_eval(e)
        if v is not None:
            return 'CONST(%s)' % v
        return 'EXPR(%s)' % (e.text(3) if e is not None else None)


def _only_throws(br):
    s = br
    while s is not None and s.kind == 'CompoundStmt':
        body = [k for k in s.kids if k is not None]
        if not body:
            return False
        if body[-1].kind == 'CXXThrowExpr':
            return True
        if len(body) == 1:
            s = body[0]
        else:
            return body[-1].kind == 'CXXThrowExpr'
    return s is not None and s.kind == 'CXXThrowExpr'


def _only_returns_false(br):
    from .rules.common import effective_stmts
    es = effective_stmts(br)
    return len(es) == 1 and es[0].kind == 'ReturnStmt' and bool(es[0].kids) and \
        const_eval(es[0].kids[0]) is False


def _post_calls(e):
    out = []

    def rec(n):
        if n is None or n.kind == 'LambdaExpr':
            return
        for k in n.kids:
            rec(k)
        if n.kind in CALL_KINDS or n.kind in CTOR_KINDS:
            out.append(n)
    rec(e)
    return out


def loop_direction(init, cond, inc):
    """ASC for (i = 0; i < n; ++i); DESC for (i = n - 1; i >= 0; --i)"""
    up = down = False
    if inc is not None:
        for n in inc.walk():
            if n.kind == 'UnaryOperator' and n.op == '++':
                up = True
            if n.kind == 'UnaryOperator' and n.op == '--':
                down = True
            if n.kind == 'CompoundAssignOperator' and n.op == '+=':
                up = True
            if n.kind == 'CompoundAssignOperator' and n.op == '-=':
                down = True
    starts_zero = False
    if init is not None:
        for v in init.find('VarDecl'):
            if v.kids and const_eval(v.kids[-1]) == 0:
                starts_zero = True
    lower_bound = False
    if cond is not None and cond.kind == 'BinaryOperator' and cond.op in ('<', '<=', '>', '>=') and \
            len(cond.kids) == 2:
        # `i >= 0`, `i > -1`, or the same written `0 <= i`, `-1 < i`
        small = cond.kids[0] if cond.op in ('<', '<=') else cond.kids[1]
        if const_eval(small) in (0, -1):
            lower_bound = True
    if up and not down and starts_zero:
        return 'ASC'
    if down and not up and lower_bound:
        return 'DESC'
    return 'OTHER'


def index_kind(idx, w):
    if idx is None:
        return None
    v = const_eval(idx)
    if v is not None:
        return 'CONST(%s)' % v
    p = member_path(strip_casts(idx))
    if p is None:
        return 'EXPR'
    c = w.alias.get(p)
    if c and c.startswith('ITEM('):
        return 'KEY-OF-' + c[5:-1]
    return 'VAR'


def entry_kind(e, w):
    e = strip_casts(e)
    if e is None:
        return None
    if e.kind in CTOR_KINDS and 'int_' in (e.type or ''):
        a = e.kids[0] if e.kids else None
        if a is not None and a.kind == 'UnaryOperator' and a.op == '++' and (a.x or {}).get('isPostfix'):
            return 'INT(counter++)'
        return 'INT(index)'
    if e.kind in CALL_KINDS and e.callee_name() in ('TupleGetItem', 'ListGetItem'):
        return 'ELEM(%s)' % w.cls_of(e.call_args()[0])
    p = member_path(e)
    if p and w.alias.get(p, '').startswith('ITEM('):
        return 'KEY-OF-' + w.alias[p][5:-1]
    if e.kind in CTOR_KINDS and len(e.kids) == 1:
        return entry_kind(e.kids[0], w)
    return 'OTHER(%s)' % e.text(3)


def norm_cond(cond, pol, w):
    """normalised text of a validation condition: locals replaced by their class.  The text is
    that of the outcome that is taken (pol False: of the negation), with negations pushed inward
    - `if (a == b) {...} else throw` reads `(a != b)` like `if (a != b) throw`."""
    flip = {'==': '!=', '!=': '==', '<': '>=', '>=': '<', '>': '<=', '<=': '>'}

    def r(n, neg=False):
        if n is None:
            return '?'
        n = strip_casts(n)
        if n.kind == 'UnaryOperator' and n.op == '!':
            return r(n.kids[0], not neg)
        if n.kind == 'BinaryOperator' and n.op in ('&&', '||'):
            op = n.op if not neg else ('||' if n.op == '&&' else '&&')
            return '(%s %s %s)' % (r(n.kids[0], neg), op, r(n.kids[1], neg))
        if n.kind == 'BinaryOperator' and n.op in flip:
            return '(%s %s %s)' % (r(n.kids[0]), flip[n.op] if neg else n.op, r(n.kids[1]))
        if n.kind in CALL_KINDS and n.callee_name() in ('operator!=', 'operator==') and len(n.kids) == 3:
            op = n.callee_name()[8:]
            return '(%s %s %s)' % (r(n.kids[1]), flip[op] if neg else op, r(n.kids[2]))
        if neg:
            return '!' + r(n)
        if n.kind == 'BinaryOperator':
            return '(%s %s %s)' % (r(n.kids[0]), n.op, r(n.kids[1]))
        if n.kind == 'UnaryOperator':
            return '%s%s' % (n.op, r(n.kids[0]))
        if n.kind in CALL_KINDS:
            nm = n.callee_name()
            if nm in ('TupleGetSize', 'ListGetSize', 'DictGetSize'):
                return 'len(%s)' % w.cls_of(n.call_args()[0])
            if nm in ('not_equal', 'equal', 'is_none', 'is'):
                b = n.call_base()
                return '%s(%s%s)' % (nm, w.cls_of(b) if b is not None else '?',
                                     ''.join(', ' + w.cls_of(a) for a in n.call_args()))
            if nm == 'DictKeysEqual':
                return 'DictKeysEqual(%s)' % ', '.join(w.cls_of(a) for a in n.call_args())
            if nm == 'operator bool':
                return 'bool(%s)' % w.cls_of(n.call_base())
            return '%s(...)' % nm
        v = const_eval(n)
        if v is not None:
            return str(int(v)) if not isinstance(v, bool) else str(v)
        p = member_path(n)
        if p:
            last = p.split('.')[-1]
            c = w.alias.get(p)
            if c and '.' not in p:
                return c
            if last in ('arity', 'num_nodes', 'num_leaves', 'kind', 'custom'):
                return last
            if c:
                return c
            return last
        return n.kind
    return r(cond, not pol)


# ---------------------------------------------------------------------------------------------
class Descriptor:
    def __init__(self, func, kind, events, walker):
        self.func = func
        self.kind = kind
        self.events = events
        self.w = walker

    def first(self, tag):
        for e in self.events:
            if e[0] == tag:
                return e
        return None

    def all(self, tag):
        return [e for e in self.events if e[0] == tag]

    @property
    def arity(self):
        a = self.all('arity')
        vals = [x[1] for x in a]
        # `node.arity = 0` followed by counting
        if 'COUNTED' in vals:
            return 'COUNTED'
        vals = [v for v in vals if not v.startswith('CONST(')]
        return vals[0] if vals else (a[0][1] if a else None)

    @property
    def child_reads(self):
        return [(e[1], e[2], e[3]) for e in self.all('child-read')]

    @property
    def loops(self):
        return [(e[1], e[2]) for e in self.all('loop')]

    @property
    def child_loop(self):
        """(direction, over) of the loop in which children are visited"""
        depth = 0
        stack = []
        res = []
        for e in self.events:
            if e[0] == 'loop':
                stack.append((e[1], e[2]))
            elif e[0] == 'endloop':
                if stack:
                    stack.pop()
            elif e[0] == 'visit' and stack:
                res.append(stack[-1])
        return res[0] if res else None

    @property
    def visits(self):
        return [(e[1], e[2]) for e in self.all('visit')]

    @property
    def key_pipeline(self):
        out = []
        for e in self.events:
            if e[0] == 'keys':
                out.append('KEYS(%s)' % e[2])
            elif e[0] == 'store' and e[1] == 'original_keys':
                out.append('ORIG=%s' % e[2])
            elif e[0] == 'sort':
                out.append('SORT')
            elif e[0] == 'reverse' and 'REVERSE' not in out:
                out.append('REVERSE')
        return out

    @property
    def reverse_on_every_path(self):
        """the key list is reversed whichever way the arm's own conditions go: one unguarded
        reverse, or reverses under complementary guards (`G` and `!(G)`)"""
        rs = [e for e in self.events if e[0] == 'reverse']
        if not rs:
            return None
        gs = [tuple(e[3]) if len(e) > 3 else () for e in rs]
        if any(not g for g in gs):
            return True

        def negs(t):
            c = self.w.guard_neg.get(t)
            return {c} if c is not None else set()
        singles = {g[0] for g in gs if len(g) == 1}
        return any(negs(g) & singles for g in singles)

    @property
    def meta(self):
        st = [e for e in self.all('store') if e[1] == 'node_data']
        return st[-1][2] if st else None

    @property
    def entries_store(self):
        st = [e for e in self.all('store') if e[1] == 'node_entries']
        return st[-1][2] if st else None

    @property
    def validations(self):
        return sorted({(e[1], e[2]) for e in self.all('validate')})

    def summary(self):
        return {'arity': self.arity, 'child_reads': self.child_reads, 'child_loop': self.child_loop,
                'visits': self.visits, 'keys': self.key_pipeline, 'meta': self.meta,
                'entries': self.entries_store, 'validations': self.validations}


def _is_object_vector(t):
    """std::vector whose elements are (or carry) Python objects: the work lists of the traversals"""
    t = (t or '')
    return re.search(r'vector<.*\b(object|handle)\b', t) is not None and 'Node' not in t


def _container_type(prog, func, base):
    """declared type of the container expression `base` (a local, a parameter or a member)"""
    if base is None:
        return ''
    if base.kind == 'MemberExpr':
        return base.type or ''
    if base.kind == 'DeclRefExpr':
        return (base.ref or {}).get('type') or base.type or ''
    return base.type or ''


def is_worklist_push(prog, func, call):
    """`<worklist>.emplace_back(child, ...)`: the container is a vector of Python objects owned by
    the traversal (a local or a member), not an output parameter"""
    b = call.call_base()
    if b is None:
        return False
    if b.kind == 'DeclRefExpr' and (b.ref or {}).get('kind') == 'ParmVarDecl':
        return False
    return _is_object_vector(_container_type(prog, func, b))


def self_names_of(func):
    """names that denote the object being visited in a traversal function: the parameter that
    carries it, the argument handed to the kind lookup, and a local popped off the work list"""
    names = set()
    for pn, pt, _ in func.params:
        if pn in ('handle', 'object', 'tree', 'full_tree'):
            names.add(pn)
    if func.body is not None:
        for n in func.body.walk():
            if n.kind in CALL_KINDS and n.callee_name() == 'GetKind':
                a = n.call_args()
                if a and a[0] is not None:
                    p = member_path(strip_casts(a[0]))
                    if p and '.' not in p:
                        names.add(p)
            if n.kind == 'VarDecl' and n.name and n.kids and n.kids[-1] is not None:
                # `object = std::move(agenda.back())`
                for c in n.kids[-1].walk():
                    if c.kind == 'CXXMemberCallExpr' and c.callee_name() == 'back' and \
                            _is_object_vector(_container_type(None, func, c.call_base())) and \
                            'pair' not in (_container_type(None, func, c.call_base()) or ''):
                        names.add(n.name)
    return names


def _prelude(func, sw):
    """statements that precede the switch in its enclosing block (same activation)"""
    out = []
    cur = sw
    while True:
        found = None
        for comp in func.body.find('CompoundStmt'):
            for i, k in enumerate(comp.kids):
                if k is cur:
                    found = (comp, i)
        if found is None:
            break
        comp, i = found
        out = [x for x in comp.kids[:i] if x is not None] + out
        cur = comp          # a plain nested block `{ ...; switch ... }` continues its parent block
    return out


def arm_descriptors(prog, func, switch_index=0, with_prelude=False):
    """kind -> Descriptor for the `switch_index`-th PyTreeKind switch of func"""
    sws = kind_switches(func)
    if len(sws) <= switch_index:
        return {}
    arms, groups = switch_arms(sws[switch_index])
    out = {}
    sn = self_names_of(func)
    pre = _prelude(func, sws[switch_index]) if with_prelude else []
    sw = sws[switch_index]
    cond = None
    for k in sw.kids[:-1]:
        if k is not None:
            cond = k
    subject = member_path(cond)
    for kind, stmts in arms.items():
        if kind == 'default' or kind not in ENUM_NAMES:
            continue
        w = ArmWalker(prog, func, kind, sn, subject)
        w.walk(pre)
        w.walk(stmts)
        out[kind] = Descriptor(func, kind, w.events, w)
    return out
